#!/bin/sh
# Re-evaluates every seeded defect under /verif/seeded against all checks (quick tier) and rewrites the detection
# matrix in each meta.json, then prints the summary table.  Uses scratch worktrees; /repo is not touched.
cd "$(dirname "$0")"
ALL="C01,C02,C03,C04,C05,C06,C07,C08,C09,C10,C11,C12,C13,C14,C15,C16,C17"
for d in seeded/*/; do
  n=$(basename "$d")
  case "$n" in C18*) cs="$ALL,C18";; *) cs="$ALL";; esac
  [ -f "$d/patch.diff" ] || continue
  cp "$d/meta.json" /tmp/meta_$n.json 2>/dev/null || echo '{}' > /tmp/meta_$n.json
  skip=$(python3 -c "import json,sys; m=json.load(open('/tmp/meta_$n.json')); c=m.get('evaluation',{}).get('confirm',{}); print('--skip-confirm' if c.get('demo_fails_with_patch') and c.get('demo_passes_without_patch') and c.get('lib_tests_pass_with_patch') else '')")
  ./seedeval.py "$n" "$d/patch.diff" "$d/demo.rs" /tmp/meta_$n.json $skip --checks "$cs" > /tmp/seedeval_$n.log 2>&1
  echo "$n: $(grep 'detected by' /tmp/seedeval_$n.log)"
done
