#!/bin/sh
# Offline build of the harness variants (MANIFEST.setup_cmd).  Every check rebuilds incrementally anyway.
set -e
cd "$(dirname "$0")"
export CARGO_NET_OFFLINE=true
exec ./check build
