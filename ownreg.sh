#!/bin/sh
# Regression over every seeded defect: is it reported by the check of the property it was written against?
# Uses a private scratch worktree (outside /repo and /verif) with the patch applied; /repo is never touched.
cd "$(dirname "$0")"
W=${OWNREG_WT:-/tmp/ownreg-repo}
# optional arguments: names of seeded defects (default: all)
LIST="$*"; [ -z "$LIST" ] && LIST=$(ls -d seeded/*/ | xargs -n1 basename)
for n in $LIST; do
  d=seeded/$n/
  id=$(echo "$n" | cut -c1-3)
  [ -f "$d/patch.diff" ] || continue
  git -C /repo worktree remove --force $W 2>/dev/null
  git -C /repo worktree add --detach $W HEAD -q || { echo "$n: WORKTREE-FAILED"; continue; }
  if (cd $W && git apply "$OLDPWD/$d/patch.diff") 2>/dev/null; then
    out=$(VERIF_REPO=$W ./check $id quick 2>&1)
    if echo "$out" | grep -q "^VIOLATION"; then
      echo "$n: DETECTED $(echo "$out" | grep -o 'rule [A-Za-z0-9_]* \[[^]]*\]' | head -2 | tr '\n' ' ')"
    else
      echo "$n: MISSED ($(echo "$out" | grep -E 'INCONCL|error' | head -1 | cut -c1-100))"
    fi
  else
    echo "$n: PATCH-DOES-NOT-APPLY"
  fi
  git -C /repo worktree remove --force $W 2>/dev/null
done
