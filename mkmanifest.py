#!/usr/bin/env python3
"""Regenerates MANIFEST.json from plans.py + the table below (keeps it valid at all times)."""
import json, subprocess
from plans import PLANS, LEVEL

HOOK_COMMITS = ["6653079"]
FIX_COMMITS = ["3f74f98", "e572c24", "f6fe648", "21e053f", "a0d3ecc", "936095d", "5df04ec"]

TEXT = {
    "C01": ("exploration", "DESIGN.md §3 C01",
            "Offline oracle over client-boundary histories and handler events of real hannibal code run under thousands of seeded interleavings per second: handler brackets never overlap, each message uid is handled at most once, every completed-before pair is handled in order through all 4 path combinations and all handle-kind pairs, and every reply/join value equals the fold of the handled prefix. Exploration is the right level: the property quantifies over programs x schedules, which a monitor can only sample.",
            "history oracle (real-time order => handling order, at-most-once, fold) on a seeded controlled executor"),
}

TEXT.update({
    "C02": ("exploration", "DESIGN.md §3 C02",
            "Replies carry the message uid and the handler-side state stamp, so the oracle can tell swapped, duplicated or invented responses from the real one; hangs are decided exactly: when the controlled executor is quiescent no client operation on a terminated actor may be pending, and every operation begun after the actor task ended must return an error.",
            "reply/handler matching + quiescence-based hang detection on a controlled executor"),
    "C03": ("exploration", "DESIGN.md §3 C03",
            "Callback and handler events of every actor incarnation are matched against the protocol started (handle|item)* [finished] stopped, with restart and started-error variants, over programs that terminate actors by every entry point with messages and ticks still queued.",
            "per-incarnation trace-specification monitor over callback events"),
    "C04": ("exploration", "DESIGN.md §3 C04",
            "Logical-clock stamps taken before each client call and after its return decide 'completed before the stop request was issued' and 'begun after an accepted stop returned'; the oracle then demands handled / never handled, and that await, halt, join and consume return only after the stopped() exit event, with Ok iff graceful.",
            "happens-before oracle over client-boundary stamps vs. handler and stopped() events"),
    "C05": ("exploration", "DESIGN.md §3 C05",
            "The interpreter keeps a reference model of the strong handles it holds; the oracle checks that no actor terminates while the model is positive, that when it reaches zero everything accepted is handled and stopped() starts at exactly the virtual instant of max(last drop, last handler exit), that at no quiescent point an actor without strong handles is idle and alive, and that upgrades fail from then on.",
            "reference-model monitor (strong-handle count vs. observed liveness) with quiescent-point invariant"),
    "C12": ("exploration", "DESIGN.md §3 C12",
            "Walks the event sequence keeping the set of sends that returned Ok minus the messages already dequeued and asserts it never exceeds the bound; counts Pending polls of send futures on unbounded mailboxes; every send must have resolved at quiescence.",
            "conservation monitor (returned - dequeued <= n) over send-return and handler-entry events"),
    "C17": ("exploration", "DESIGN.md §3 C17",
            "Join/consume results are compared with the fold of the handler log of the final object; stamps decide that a Some is only returned after stopped() exited, at most once per actor, and that every join resolves once the actor task has ended.",
            "history oracle over join results vs. handler log"),
})

TEXT.update({
    "C07": ("exploration", "DESIGN.md §3 C07",
            "Incarnation-tagged callback/handler events are checked against a model of the three strategies (same value and carried state / fresh Default value and reset state / request ignored); every handled message must fall into the incarnation interval implied by the restart requests that definitely / possibly preceded it; on the virtual clock a timer registered in incarnation i must not fire after incarnation i+1 has started.",
            "incarnation-interval oracle + strategy model + virtual-time firing check"),
    "C10": ("exploration", "DESIGN.md §3 C10",
            "On the virtual clock computation takes no time, so for idle actors the oracle demands deliveries at exactly t_reg + k*period (and nothing else) until the instant stopped() begins; for busy actors the lower bound; delayed timers at most once; nothing after the actor task ended; the executor's task census must show every timer task ended.",
            "virtual-clock tick arithmetic + executor task census"),
    "C11": ("exploration", "DESIGN.md §3 C11",
            "Per-message work d and timeout t are drawn from a lattice including d = t-1, t, t+1; the oracle demands completion for d < t, abandonment at exactly entry + t with no later scripted effect and an error for the caller for d > t, then continuation with intact state or failed termination depending on fail_on_timeout; without timeout nothing is ever abandoned (d up to 1000 units).",
            "virtual-clock boundary-value monitor over handler progress events"),
    "C13": ("exploration", "DESIGN.md §3 C13",
            "A harness stream with scripted readiness (empty, finite, never ready, ticking forever, bursts, always ready) logs every item it yields; the oracle demands the handled item sequence to equal the yielded one, messages in submission order, no abandoned invocation, finished+stopped+Ok on every termination cause incl. stop/drop on endless streams, and bounded progress after an accepted stop.",
            "producer/consumer exactly-once-in-order monitor on a harness-controlled stream"),
    "C14": ("exploration", "DESIGN.md §3 C14",
            "stopped()/running() are sampled on Addr, clones and WeakAddr before and after termination for every cause under the four await histories (never / clone before / clone after / self); after the actor task ended every handle must say stopped; registry lookups after an un-awaited termination must hand out a live instance.",
            "state-query monitor across await histories x termination causes"),
    "C15": ("exploration", "DESIGN.md §3 C15",
            "Programs leave every non-empty subset of {Addr, OwningAddr, Sender, Caller} alive; a per-kind reference model tells the oracle which strong kinds exist at each Context::stop / restart, weak upgrade and timer deadline, all of which must then succeed / fire; submissions through converted handles must be handled by the actor the handle was derived from.",
            "per-kind reference-model monitor over context-operation, upgrade and tick events"),
})

TEXT.update({
    "C06": ("fault_enumeration", "DESIGN.md §3 C06",
            "For every program of the fault families the fault-free run is made first under the same schedule seed, then one run per single fault: a panic at each callback entry observed (started, every handler, stopped, finished), an Err from each started, a cancellation after each poll of the victim's loop task. On every faulted run the oracle demands: pending and later operations on the victim error out (nothing pending at quiescence), await Err / join None, no timer activity and no live timer task after its end, released children stop gracefully, the registry respawns / replaces it, bystanders (incl. one calling the victim from a handler) keep answering and end only for their own reasons.",
            "systematic single-fault injection (kind x position) + containment oracles on the resulting traces"),
    "C16": ("exploration", "DESIGN.md §3 C16",
            "Tree programs (up to 6 nodes, depth 3) register children under Bcast<0>, Bcast<1> or (); the effects log which child was registered where, so the oracle can demand that a child without outside handles never begins stopped() before its parent released it, stops gracefully after the parent's task ended (recursively), that children held outside keep running, and that each broadcast is handled exactly once per registration by children of that type and by nobody else.",
            "parent/child liveness monitor + exactly-once broadcast oracle"),
})

TEXT.update({
    "C08": ("exploration", "DESIGN.md §3 C08",
            "Every registry operation is recorded at the client boundary with begin/return stamps and its observed result; instance identity comes from the object uid in the reply of a call on the returned address; instance terminations enter the history as events. A memoised Wing-Gong search decides whether the per-type history has a linearization in a 40-line sequential model (lookup returns the registered live instance or spawns exactly one fresh default instance inside its own interval; register succeeds iff no live entry; replace/unregister return the previous entry; try_from_registry Some only for a registered live instance; already_running None/Some(false)/Some(true)), and that every default-spawned instance is accounted for by exactly one lookup.",
            "linearizability checking of recorded histories against an executable sequential model"),
    "C09": ("exploration", "DESIGN.md §3 C09",
            "Publications carry unique ids, so topic-handler events identify the publication they deliver. From begin/return stamps of subscribe/unsubscribe/publish (and a broker ping as fan-out barrier) the oracle derives for each (publication, subscriber) pair whether exactly one, zero, or at most one delivery is required, and checks that the union of all subscribers' delivery sequences and all publishers' own orders is acyclic (witness: the cycle).",
            "exactly-once / never / precedence-graph-acyclicity oracle over delivery events"),
})

TEXT.update({
    "C18": ("exploration", "DESIGN.md §3 C18",
            "Differential monitoring: the harness is built three times against hannibal with the tokio, async-std and smol runtime features (hooks off) and runs the complete catalogue of spawn entry points x timing-independent programs on each; the normalised outcome records must be identical, stable across repeats, and the actor must answer a ping after every spawn call returned.",
            "differential outcome-record comparison across three runtime builds"),
})

NOT_YET = "check not built yet in this revision (planned, see DESIGN.md §3)"

def main():
    props = [json.loads(l) for l in open("/verif/properties.jsonl")]
    checks, na = [], []
    for p in props:
        pid = p["id"]
        if pid in PLANS and pid in TEXT:
            cat, ref, text, tech = TEXT[pid]
            checks.append({
                "property_id": pid,
                "quick_cmd": f"./check {pid} quick",
                "thorough_cmd": f"./check {pid} thorough",
                "evidence_file": f"/verif/evidence/{pid}.json",
                "replay_cmd_template": f"./check {pid} --replay {{path}}",
                "engine": "+".join(PLANS[pid]["engines"]),
                "level_claimed": {"category": LEVEL.get(pid, cat), "text": text, "design_ref": ref},
                "level_note": "Held on the executions explored, nothing more. Trusted base: the harness (hv: vexec executor, interpreter, oracles), the cfg(feature=verif) shim in hannibal (forwards spawn/sleep to the harness executor; no hannibal logic replaced), rustc. Schedules not sampled are not covered.",
                "technique": tech,
            })
        elif pid == "C19":
            na.append({"property_id": pid, "reason": "compile-time rejection of ill-typed programs: such programs never execute, so there is no execution for a runtime monitor or sanitizer to observe; deciding it needs a compile-fail catalogue (different technique)"})
        else:
            na.append({"property_id": pid, "reason": NOT_YET})
    m = {
        "version": 1,
        "setup_cmd": "./setup.sh",
        "hooks": {
            "guard": "cargo feature `verif` of hannibal (off by default)",
            "enable": "the harness crate /verif/hv depends on hannibal { path = \"/repo\" } with features [\"tokio_runtime\", \"verif\"] (hv feature `l1`); L2/L3 builds leave it off",
            "baseline_off_cmd": "cd /repo && cargo test --workspace --no-fail-fast --offline",
            "source_commits": HOOK_COMMITS,
            "add_only": True,
        },
        "engines": [
            {"name": "xrt", "path": "/verif/hv (features rt_tokio | rt_async | rt_smol, no hook)", "serves_properties": ["C18"],
             "kind_free_text": "three builds of the harness against hannibal's three runtime features running the same single-client programs on the real runtimes; records compared by the driver"},
            {"name": "mt", "path": "/verif/hv (feature mt, hook off)", "serves_properties": sorted(k for k in PLANS if "mt" in PLANS[k]["engines"]),
             "kind_free_text": "L2: the same generated programs on a real multi-threaded tokio runtime with every client an OS thread (true parallelism, guard-off production build); only rules sound under real time are evaluated (oracle/mod.rs mt_sound); watchdog = inconclusive"},
            {"name": "l1", "path": "/verif/hv (feature l1)", "serves_properties": sorted(k for k in PLANS if "l1" in PLANS[k]["engines"]),
             "kind_free_text": "seeded single-threaded controlled executor with virtual clock, fault plan and task census running the unmodified hannibal actor loops through the verif shim; offline oracles over the recorded event log"},
        ],
        "checks": checks,
        "not_applicable": na,
        "notes": "Technique family: runtime monitoring. Every claimed property is decided by an oracle over recorded executions of the real code. exit 2 = inconclusive (never a VIOLATION).",
    }
    json.dump(m, open("/verif/MANIFEST.json", "w"), indent=1)
    print("MANIFEST.json:", len(checks), "checks,", len(na), "not_applicable")

main()
