#!/usr/bin/env python3
"""Regenerates MANIFEST.json from plans.py + the table below (keeps it valid at all times)."""
import json, subprocess
from plans import PLANS, LEVEL

HOOK_COMMITS = ["6653079"]

TEXT = {
    "C01": ("exploration", "DESIGN.md §3 C01",
            "Offline oracle over client-boundary histories and handler events of real hannibal code run under thousands of seeded interleavings per second: handler brackets never overlap, each message uid is handled at most once, every completed-before pair is handled in order through all 4 path combinations and all handle-kind pairs, and every reply/join value equals the fold of the handled prefix. Exploration is the right level: the property quantifies over programs x schedules, which a monitor can only sample.",
            "history oracle (real-time order => handling order, at-most-once, fold) on a seeded controlled executor"),
}

NOT_YET = "check not built yet in this revision (planned, see DESIGN.md §3)"

def main():
    props = [json.loads(l) for l in open("/verif/properties.jsonl")]
    checks, na = [], []
    for p in props:
        pid = p["id"]
        if pid in PLANS and pid in TEXT:
            cat, ref, text, tech = TEXT[pid]
            checks.append({
                "property_id": pid,
                "quick_cmd": f"./check {pid} quick",
                "thorough_cmd": f"./check {pid} thorough",
                "evidence_file": f"/verif/evidence/{pid}.json",
                "replay_cmd_template": f"./check {pid} --replay {{path}}",
                "engine": "+".join(PLANS[pid]["engines"]),
                "level_claimed": {"category": LEVEL.get(pid, cat), "text": text, "design_ref": ref},
                "level_note": "Held on the executions explored, nothing more. Trusted base: the harness (hv: vexec executor, interpreter, oracles), the cfg(feature=verif) shim in hannibal (forwards spawn/sleep to the harness executor; no hannibal logic replaced), rustc. Schedules not sampled are not covered.",
                "technique": tech,
            })
        elif pid == "C19":
            na.append({"property_id": pid, "reason": "compile-time rejection of ill-typed programs: such programs never execute, so there is no execution for a runtime monitor or sanitizer to observe; deciding it needs a compile-fail catalogue (different technique)"})
        else:
            na.append({"property_id": pid, "reason": NOT_YET})
    m = {
        "version": 1,
        "setup_cmd": "./setup.sh",
        "hooks": {
            "guard": "cargo feature `verif` of hannibal (off by default)",
            "enable": "the harness crate /verif/hv depends on hannibal { path = \"/repo\" } with features [\"tokio_runtime\", \"verif\"] (hv feature `l1`); L2/L3 builds leave it off",
            "baseline_off_cmd": "cd /repo && cargo test --workspace --no-fail-fast --offline",
            "source_commits": HOOK_COMMITS,
            "add_only": True,
        },
        "engines": [
            {"name": "l1", "path": "/verif/hv (feature l1)", "serves_properties": sorted(k for k in PLANS if "l1" in PLANS[k]["engines"]),
             "kind_free_text": "seeded single-threaded controlled executor with virtual clock, fault plan and task census running the unmodified hannibal actor loops through the verif shim; offline oracles over the recorded event log"},
        ],
        "checks": checks,
        "not_applicable": na,
        "notes": "Technique family: runtime monitoring. Every claimed property is decided by an oracle over recorded executions of the real code. exit 2 = inconclusive (never a VIOLATION).",
    }
    json.dump(m, open("/verif/MANIFEST.json", "w"), indent=1)
    print("MANIFEST.json:", len(checks), "checks,", len(na), "not_applicable")

main()
