//! Program data model: what a scenario is.  Pure data (printable, hashable).
use crate::actors::{SStep, StreamSpec};

#[derive(Clone, Copy, Debug, PartialEq, Eq, Hash)]
pub enum Strategy {
    RestartOnly,
    Recreate,
    NonRestartable,
}

/// which spawn API creates the actor
#[derive(Clone, Copy, Debug, PartialEq, Eq, Hash)]
pub enum Entry {
    /// `Spawnable::spawn`
    Spawn,
    /// `Spawnable::spawn_owning`
    SpawnOwning,
    /// `DefaultSpawnable::spawn_default`
    SpawnDefault,
    /// `DefaultSpawnable::spawn_owning`
    DefaultSpawnOwning,
    /// `build(..)…spawn()`
    Builder,
    /// `build(..)…spawn_owning()`
    BuilderOwning,
    /// `StreamSpawnable::spawn_on_stream`
    OnStream,
    /// `StreamSpawnable::spawn_owning_on_stream`
    OwningOnStream,
    /// `build(..).on_stream(s)` / `.bounded_on_stream(n, s)` `.spawn()`
    BuilderOnStream,
    BuilderOnStreamOwning,
    /// `build(..).unbounded()/bounded(n).non_restartable().with_stream(s).spawn()`
    BuilderWithStream,
    BuilderWithStreamOwning,
}

impl Entry {
    pub fn owning(self) -> bool {
        matches!(
            self,
            Entry::SpawnOwning
                | Entry::DefaultSpawnOwning
                | Entry::BuilderOwning
                | Entry::OwningOnStream
                | Entry::BuilderOnStreamOwning
                | Entry::BuilderWithStreamOwning
        )
    }
    pub fn stream(self) -> bool {
        matches!(
            self,
            Entry::OnStream
                | Entry::OwningOnStream
                | Entry::BuilderOnStream
                | Entry::BuilderOnStreamOwning
                | Entry::BuilderWithStream
                | Entry::BuilderWithStreamOwning
        )
    }
    pub fn builder(self) -> bool {
        matches!(
            self,
            Entry::Builder
                | Entry::BuilderOwning
                | Entry::BuilderOnStream
                | Entry::BuilderOnStreamOwning
                | Entry::BuilderWithStream
                | Entry::BuilderWithStreamOwning
        )
    }
}

#[derive(Clone, Debug, PartialEq, Eq, Hash)]
pub struct ActorDecl {
    pub tag: u32,
    /// 0 = ordinary; 1,2 = service types
    pub k: u8,
    /// None = unbounded (only honoured by builder entries)
    pub mailbox: Option<usize>,
    pub strategy: Strategy,
    pub timeout: Option<u64>,
    pub fail_on_timeout: bool,
    /// order / place in which the builder's timeout() and fail_on_timeout() are called:
    /// bit0: fail_on_timeout before timeout; bit1: on the builder-with-channel instead of the base builder
    pub cfg_order: u8,
    pub stream: Option<StreamSpec>,
    pub entry: Entry,
    pub started: Vec<SStep>,
    pub stopped: Vec<SStep>,
    pub started_err_at: Vec<u32>,
    pub aux_work: u64,
    pub tick_work: u64,
    pub aux_yield: bool,
    /// stream-attached actors: the n-th stream item's handler (1-based) calls `ctx.stop()`
    pub item_stop_at: Option<u32>,
    /// clients that get an `Addr` clone at setup
    pub holders: Vec<u16>,
    /// client that gets the `OwningAddr` (owning entries)
    pub owner: u16,
    /// spawned at setup (true) or only by a `SpawnActor` op (false)
    pub at_setup: bool,
}

impl ActorDecl {
    pub fn plain(tag: u32) -> ActorDecl {
        ActorDecl {
            tag,
            k: 0,
            mailbox: None,
            strategy: Strategy::RestartOnly,
            timeout: None,
            fail_on_timeout: false,
            cfg_order: 0,
            stream: None,
            entry: Entry::Builder,
            started: vec![],
            stopped: vec![],
            started_err_at: vec![],
            aux_work: 0,
            tick_work: 0,
            aux_yield: false,
            item_stop_at: None,
            holders: vec![0],
            owner: 0,
            at_setup: true,
        }
    }
}

/// program-level handler script step (handles referenced by slot)
#[derive(Clone, Debug, PartialEq, Eq, Hash)]
pub enum PStep {
    Yield,
    Sleep(u64),
    CtxStop,
    CtxRestart,
    Interval(u64),
    IntervalWith(u64),
    DelayedSend(u64),
    DelayedExec(u64),
    AddChild(u16),
    RegisterChild(u8, u16),
    /// 0/1 = Bcast<0/1>, 2 = ()
    SendToChildren(u8),
    Subscribe(u8),
    Publish(u8),
    Panic,
    CallAddr(u16),
    WeakSelf,
    /// the synchronous `Service::try_from_registry()` of service type k, called from inside a handler
    TryFromRegistry(u8),
    /// the handler hands `ctx.weak_sender()` out (the handle an actor gives to helpers to report back with)
    ExportWeakSender,
}

#[derive(Clone, Copy, Debug, PartialEq, Eq, Hash)]
pub enum Via {
    /// `Broker::publish`
    Static,
    /// `Broker::from_registry().await.publish(..)` on a kept address
    Addr,
    /// `Broker::try_publish`
    Try,
}

#[derive(Clone, Debug, PartialEq, Eq, Hash)]
pub enum Op {
    Send { slot: u16, script: Vec<PStep>, cancel: Option<u8> },
    Call { slot: u16, script: Vec<PStep>, cancel: Option<u8> },
    Ping { slot: u16, cancel: Option<u8> },
    /// `WeakSender::try_force_send`
    ForceSend { slot: u16 },
    /// `count` sequence-numbered fire-and-forget messages back to back (every `force_every`-th through the
    /// forcing path), checked for per-client order inside the actor without logging each one
    Burst { slot: u16, count: u32, force_every: u8 },
    Stop { slot: u16 },
    Halt { slot: u16 },
    Consume { slot: u16 },
    ConsumeSync { slot: u16 },
    Restart { slot: u16 },
    Clone { slot: u16 },
    Downgrade { slot: u16 },
    Upgrade { slot: u16 },
    ToSender { slot: u16 },
    ToCaller { slot: u16 },
    ToWeakSender { slot: u16 },
    ToWeakCaller { slot: u16 },
    Detach { slot: u16 },
    ToAddr { slot: u16 },
    Drop { slot: u16 },
    /// drop every slot of this client
    DropAll,
    Await { slot: u16, by_ref: bool },
    Join { slot: u16, cancel: Option<u8> },
    /// create a join future, poll it up to `polls` times, then keep it (un-polled) in a new slot; a later
    /// `Join` on that slot resumes it
    JoinPark { slot: u16, polls: u8 },
    /// create a `Sender::send` future (it is `'static`), poll it `polls` times, keep it in a new slot
    SendPark { slot: u16, script: Vec<PStep>, polls: u8 },
    /// await a parked send / consume future to completion
    AwaitParked { slot: u16 },
    /// `from_registry()` of service type k is polled `polls` times and then dropped (a lookup under a timeout /
    /// `select!` that gave up); always pushes one slot (the address if the lookup completed in time)
    FromRegistryCancel { k: u8, polls: u8 },
    /// take the weak sender that the actor behind `slot` exported from its context (`ExportWeakSender`); always
    /// pushes one slot
    ImportWeakSender { slot: u16 },
    /// the handle in `slot` is dropped while the client's thread is unwinding from a panic (which the client catches)
    DropPanicking { slot: u16 },
    /// `owning.consume()` creates a lazy future that owns the OwningAddr; it is kept un-polled in a new slot
    ConsumePark { slot: u16 },
    /// L2: spin until `parties` clients have arrived at rendezvous `id`, then spin for `jitter` x 10 ns, so that the
    /// next operations of those clients run within nanoseconds of each other on different threads; L1: one yield
    Rendezvous { id: u8, parties: u8, jitter: u16 },
    Query { slot: u16, running: bool },
    Yield,
    Sleep(u64),
    SpawnActor { decl: u16 },
    /// `build(actor)…<strategy>.register().await` (service decls only): pushes two slots (self, previous entry)
    SpawnRegister { decl: u16 },
    /// poll the harness event log (not the actor) until `count` events of kind `what` (0 = stopped() exits,
    /// 1 = tick handler entries, 2 = delayed_exec bodies) of actor `tag` were seen; bounded wait
    AwaitLog { tag: u32, what: u8, count: u32 },
    /// like AwaitLog, but waits synchronously (blocks the calling thread between polls): only an actor that really
    /// runs on the runtime's own workers can make progress meanwhile (what: 3 = started() exits)
    AwaitLogSync { tag: u32, what: u8, count: u32 },
    /// run `ops` as a new client task that takes over the listed slots
    Fork { ops: Vec<Op>, moved: Vec<u16> },
    // registry (k = service type 1|2)
    FromRegistry { k: u8 },
    Setup { k: u8 },
    Register { slot: u16 },
    Replace { slot: u16 },
    Unregister { k: u8 },
    TryFromRegistry { k: u8 },
    AlreadyRunning { k: u8 },
    // broker
    Publish { topic: u8, via: Via },
    /// subscribe the actor behind `slot` from outside with a weak sender
    SubscribeExt { slot: u16, topic: u8 },
    Unsubscribe { slot: u16, topic: u8 },
    /// ping the topic's broker (fan-out barrier)
    BrokerPing { topic: u8 },
}

#[derive(Clone, Debug, PartialEq, Eq, Hash)]
pub struct Program {
    pub actors: Vec<ActorDecl>,
    pub clients: Vec<Vec<Op>>,
    /// service defaults for k = 1, 2 (index 0 unused = recreate default of k = 0 actors)
    pub defaults: Vec<ActorDecl>,
    /// fault plan: (tag, nth callback, panic=true / err=false)
    pub faults: Vec<(u32, u32, bool)>,
    /// cancel the nth actor-loop task after its j-th poll
    pub cancel: Option<(u32, u32)>,
    /// brokers used (topics), so that cleanup can stop them
    pub topics: Vec<u8>,
}

impl Program {
    /// `Default::default()` takes no argument, so the harness can tell *which* declaration a default-created value
    /// belongs to only while at most one spawn through `Default` (spawn_default / DefaultSpawnable::spawn_owning) of
    /// each harness actor type is outstanding - and a library is free to evaluate `Default::default()` later than the
    /// spawn call (inside the actor's task).  Every program therefore keeps only its first default-spawn entry per type;
    /// later ones use the corresponding entry that takes a ready-made value.
    pub fn one_default_spawn_per_type(&mut self) {
        let mut seen: Vec<u8> = vec![];
        for a in self.actors.iter_mut() {
            if matches!(a.entry, Entry::SpawnDefault | Entry::DefaultSpawnOwning) {
                if seen.contains(&a.k) {
                    a.entry = if a.entry == Entry::SpawnDefault { Entry::Spawn } else { Entry::SpawnOwning };
                } else {
                    seen.push(a.k);
                }
            }
        }
    }

    pub fn new() -> Program {
        Program { actors: vec![], clients: vec![], defaults: vec![], faults: vec![], cancel: None, topics: vec![] }
    }
    /// sum of all durations appearing in the program (horizon estimate)
    pub fn total_duration(&self) -> u64 {
        fn ops(v: &[Op]) -> u64 {
            v.iter()
                .map(|o| match o {
                    Op::Sleep(d) => *d,
                    Op::Send { script, .. } | Op::Call { script, .. } => script.iter().map(ps).sum(),
                    Op::Fork { ops: o, .. } => ops(o),
                    _ => 0,
                })
                .sum()
        }
        fn ps(s: &PStep) -> u64 {
            match s {
                PStep::Sleep(d)
                | PStep::Interval(d)
                | PStep::IntervalWith(d)
                | PStep::DelayedSend(d)
                | PStep::DelayedExec(d) => *d,
                _ => 0,
            }
        }
        fn ss(s: &SStep) -> u64 {
            match s {
                SStep::Sleep(d)
                | SStep::Interval(d)
                | SStep::IntervalWith(d)
                | SStep::DelayedSend(d)
                | SStep::DelayedExec(d) => *d,
                _ => 0,
            }
        }
        let a: u64 = self
            .actors
            .iter()
            .chain(self.defaults.iter())
            .map(|a| {
                a.started.iter().map(ss).sum::<u64>() * 4
                    + a.stopped.iter().map(ss).sum::<u64>() * 4
                    + a.timeout.unwrap_or(0)
                    + a.aux_work * 16 + a.tick_work * 16
                    + a.stream.as_ref().map(|s| s.bursts.iter().map(|b| b.0).sum::<u64>()).unwrap_or(0)
            })
            .sum();
        a + self.clients.iter().map(|c| ops(c)).sum::<u64>()
    }
}
