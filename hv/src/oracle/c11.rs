//! C11 handler timeouts abandon exactly the invocations that exceed the limit (virtual clock).
use std::collections::HashMap;

use super::facts::facts;
use super::{Cx, Report};
use crate::log::*;
use crate::prog::{Op, PStep};
use crate::rt::UNIT_NS as UNIT;

const P: &str = "C11";

/// msg uid -> total scripted sleep (units) of that message; None if the script has other timed steps
fn needs(cx: &Cx) -> HashMap<Uid, u64> {
    // op (c,i) -> script, found by walking the program with the same numbering the interpreter uses
    let mut out = HashMap::new();
    fn walk<'a>(ops: &'a [Op], acc: &mut Vec<&'a [Op]>) {
        acc.push(ops);
        for o in ops {
            if let Op::Fork { ops, .. } = o {
                walk(ops, acc);
            }
        }
    }
    // scripts are recovered from the trace instead: OpB carries msg; the script durations are in the program
    // under the (client, index) of the op.  Forked clients get fresh ids in fork order, so we map by trace.
    let mut by_client: HashMap<u16, &[Op]> = HashMap::new();
    for (c, ops) in cx.prog.clients.iter().enumerate() {
        by_client.insert(c as u16, ops.as_slice());
    }
    // forks: OpK::Fork op of client c at index i spawns client arg
    let mut changed = true;
    while changed {
        changed = false;
        for o in &cx.ix.ops {
            if o.op == OpK::Fork && !by_client.contains_key(&(o.arg as u16)) {
                if let Some(parent) = by_client.get(&o.c) {
                    if let Some(Op::Fork { ops, .. }) = parent.get(o.i as usize) {
                        by_client.insert(o.arg as u16, ops.as_slice());
                        changed = true;
                    }
                }
            }
        }
    }
    let _ = walk;
    for o in &cx.ix.ops {
        if !matches!(o.op, OpK::Send | OpK::Call) {
            continue;
        }
        let Some(ops) = by_client.get(&o.c) else { continue };
        let script: &[PStep] = match ops.get(o.i as usize) {
            Some(Op::Send { script, .. }) | Some(Op::Call { script, .. }) => script,
            _ => continue,
        };
        let pure = script.iter().all(|s| matches!(s, PStep::Sleep(_) | PStep::Yield | PStep::WeakSelf));
        if pure {
            out.insert(o.msg, script.iter().map(|s| if let PStep::Sleep(d) = s { *d } else { 0 }).sum());
        }
    }
    out
}

pub fn check(cx: &Cx, rep: &mut Report) {
    let ix = cx.ix;
    let fx = facts(cx);
    let need = needs(cx);
    let mut nontrivial = false;
    for af in fx.values() {
        let Some(decl) = af.decl else { continue };
        if af.faulted {
            continue;
        }
        // stream-attached actors: the library applies no handler timeout to them, whatever the builder was told, so
        // the "no timeout configured" clause applies: nothing is ever abandoned (mailbox messages and items alike)
        if decl.entry.stream() {
            for t in ix.actors[&af.task].timeline.iter() {
                if let crate::index::TL::Inv(j) = t {
                    let inv = &ix.invs[*j];
                    rep.premise("C11.R5.no_timeout_no_abandon");
                    rep.premise("C11.R5.stream_attached_never_abandons");
                    if let Some((s, _)) = inv.abandoned {
                        rep.fail(P, "R5", format!("abandoned_on_stream_actor;{:?}", inv.mk), format!("{:?} {} on stream-attached actor tag {} was abandoned at #{s} (no handler timeout applies to stream-attached actors)", inv.mk, inv.msg, af.tag), vec![inv.i, s]);
                    }
                }
            }
            continue;
        }
        let invs: Vec<&crate::index::Inv> = ix.actors[&af.task].timeline.iter().filter_map(|t| if let crate::index::TL::Inv(j) = t { Some(&ix.invs[*j]) } else { None }).collect();
        match decl.timeout {
            None => {
                // R5: nothing is ever abandoned
                for inv in &invs {
                    rep.premise("C11.R5.no_timeout_no_abandon");
                    if let Some((s, _)) = inv.abandoned {
                        rep.fail(P, "R5", "abandoned_without_timeout", format!("msg {} was abandoned at #{s} although no timeout is configured and no fault was injected", inv.msg), vec![inv.i, s]);
                    }
                    if need.get(&inv.msg).map(|n| *n >= 50).unwrap_or(false) && inv.out.is_some() {
                        rep.count("C11.R5.long_invocations_completed", 1);
                    }
                }
            }
            Some(0) => {
                // boundary configuration: an invocation that needs any time at all never completes and its caller
                // gets an error (an instantaneous one ties with the timer; with t = 0 the timer may even win before
                // the handler is entered, so nothing else is judged here)
                for o in ix.ops.iter().filter(|o| o.tag == af.tag && matches!(o.op, OpK::Send | OpK::Call) && o.executed()) {
                    let Some(n) = need.get(&o.msg) else { continue };
                    if *n == 0 {
                        rep.count("C11.tie_d_equals_t", 1);
                        continue;
                    }
                    rep.premise("C11.R2.zero_timeout_abandons");
                    nontrivial = true;
                    if let Some(inv) = ix.inv_of.get(&o.msg).and_then(|v| v.first()).map(|j| &ix.invs[*j]) {
                        if let Some((s, _, _, _)) = inv.out {
                            rep.fail(P, "R2", "completed_above_limit;t=0", format!("msg {} needs {n} > timeout 0 but completed at #{s}", o.msg), vec![inv.i, s]);
                        }
                    }
                    if o.op == OpK::Call && matches!(o.res, Some(Res::Reply { .. })) {
                        rep.fail(P, "R2", "caller_ok_on_abandon;t=0", format!("call msg {} needs {n} > timeout 0 but the caller got {:?}", o.msg, o.res), vec![o.b]);
                    }
                }
            }
            Some(t) => {
                let t_ns = t * UNIT;
                let mut first_abandon: Option<(u64, u64)> = None;
                for inv in &invs {
                    let Some(n) = need.get(&inv.msg) else { continue };
                    let op = ix.ops.iter().find(|o| o.msg == inv.msg && matches!(o.op, OpK::Send | OpK::Call));
                    if *n < t {
                        // R1: completes (unless the whole actor was torn down meanwhile, which only a fault does)
                        rep.premise("C11.R1.below_limit_completes");
                        if *n + 1 == t {
                            rep.count("C11.boundary.just_below", 1);
                        }
                        if inv.out.is_none() {
                            rep.fail(P, "R1", "abandoned_below_limit", format!("msg {} needs {n} < timeout {t} but did not complete (abandoned at {:?})", inv.msg, inv.abandoned), vec![inv.i]);
                        }
                        if let Some(o) = op {
                            if o.op == OpK::Call && o.is_err() {
                                rep.fail(P, "R1", "call_err_below_limit", format!("call msg {} needs {n} < timeout {t} but returned {:?}", inv.msg, o.res), vec![o.b]);
                            }
                        }
                    } else if *n > t {
                        // R2: abandoned at exactly entry + t; no effects afterwards; caller errs
                        rep.premise("C11.R2.above_limit_abandoned");
                        nontrivial = true;
                        if *n == t + 1 {
                            rep.count("C11.boundary.just_above", 1);
                        }
                        match (inv.out, inv.abandoned) {
                            (Some((s, _, _, _)), _) => rep.fail(P, "R2", "completed_above_limit", format!("msg {} needs {n} > timeout {t} but completed at #{s}", inv.msg), vec![inv.i, s]),
                            (None, Some((s, vt))) => {
                                if vt != inv.it + t_ns {
                                    rep.fail(P, "R2", "abandoned_at_wrong_time", format!("msg {} entered at t={} with timeout {t}: abandoned at t={vt}, expected t={}", inv.msg, inv.it, inv.it + t_ns), vec![inv.i, s]);
                                }
                                first_abandon.get_or_insert((s, vt));
                            }
                            (None, None) => rep.fail(P, "R2", "never_abandoned", format!("msg {} needs {n} > timeout {t} and is still running at the end", inv.msg), vec![inv.i]),
                        }
                        for e in ix.ev {
                            if let K::Effect { msg, what, .. } = &e.k {
                                if *msg == inv.msg && *what == "after_sleep" && e.vt > inv.it + t_ns {
                                    rep.fail(P, "R2", "effect_after_abandon", format!("msg {} produced an effect at t={} after its timeout at t={}", inv.msg, e.vt, inv.it + t_ns), vec![inv.i, e.stamp]);
                                }
                            }
                        }
                        if let Some(o) = op {
                            if o.op == OpK::Call && o.e.is_some() {
                                rep.premise("C11.R2.caller_gets_error");
                                if !o.is_err() && !matches!(o.res, Some(Res::Cancelled)) {
                                    rep.fail(P, "R2", "caller_ok_on_abandon", format!("call msg {} was abandoned but the caller got {:?}", inv.msg, o.res), vec![o.b]);
                                }
                            }
                        }
                    } else {
                        rep.count("C11.tie_d_equals_t", 1);
                        if inv.abandoned.is_some() {
                            first_abandon.get_or_insert(inv.abandoned.unwrap_or((0, 0)));
                        }
                    }
                }
                // timer ticks are handler invocations like any other, whichever lane delivered them (an `interval` tick
                // is force-sent, the others wait for room): the same limit applies
                let w = decl.tick_work;
                for inv in invs.iter().filter(|i| i.mk == Mk::Tick) {
                    if w < t {
                        rep.premise("C11.R1.tick_below_limit_completes");
                        if inv.out.is_none() && inv.abandoned.map(|a| ix.phase("end").map(|e| a.0 < e).unwrap_or(true)).unwrap_or(false) {
                            rep.fail(P, "R1", "tick_abandoned_below_limit", format!("tick {} needs {w} < timeout {t} but was abandoned at {:?}", inv.msg, inv.abandoned), vec![inv.i]);
                        }
                    } else if w > t {
                        rep.premise("C11.R2.tick_above_limit_abandoned");
                        match (inv.out, inv.abandoned) {
                            (Some((s, _, _, _)), _) => rep.fail(P, "R2", "tick_completed_above_limit", format!("tick {} needs {w} > timeout {t} but its handler completed at #{s}", inv.msg), vec![inv.i, s]),
                            (None, Some((s, vt))) => {
                                if vt != inv.it + t_ns && ix.phase("end").map(|e| s < e).unwrap_or(true) {
                                    rep.fail(P, "R2", "tick_abandoned_at_wrong_time", format!("tick {} entered at t={} with timeout {t}: abandoned at t={vt}, expected t={}", inv.msg, inv.it, inv.it + t_ns), vec![inv.i, s]);
                                }
                            }
                            (None, None) => {}
                        }
                    }
                }
                let any_abandon = invs.iter().filter_map(|i| i.abandoned).min();
                if let Some((s, _)) = any_abandon {
                    if decl.fail_on_timeout {
                        // R4: failed termination, nothing further
                        rep.premise("C11.R4.fail_on_timeout_terminates");
                        if invs.iter().any(|i| i.i > s) {
                            rep.fail(P, "R4", "handled_after_fail_on_timeout", format!("actor tag {} handled a message after a timeout at #{s} with fail_on_timeout", af.tag), vec![s]);
                        }
                        if af.task_end.is_none() || af.t_final().is_some() {
                            rep.fail(P, "R4", "no_failed_termination", format!("actor tag {} timed out at #{s} with fail_on_timeout but task_end={:?} stopped={:?}", af.tag, af.task_end, af.t_final()), vec![s]);
                        }
                        for o in ix.ops.iter().filter(|o| o.tag == af.tag && o.e.is_some()) {
                            match (&o.op, &o.res) {
                                (OpK::Await | OpK::AwaitRef, Some(Res::Ok)) => rep.fail(P, "R4", "await_ok_after_timeout_failure", format!("await c{}#{} returned Ok for an actor that failed on timeout", o.c, o.i), vec![o.b]),
                                (OpK::Join | OpK::Consume, Some(Res::Joined(Some(_)))) => rep.fail(P, "R4", "join_some_after_timeout_failure", format!("join c{}#{} returned the actor although it failed on timeout", o.c, o.i), vec![o.b]),
                                _ => {}
                            }
                        }
                    } else {
                        // R3: carries on: everything accepted before any termination cause is still handled,
                        // and the actor does not end without a cause
                        rep.premise("C11.R3.continues_after_timeout");
                        let cause = af.first_term_cause();
                        // (a child is also released by its parent's termination, which the reference model of the
                        // child does not see)
                        if af.task_end.is_some() && cause.is_none() && !af.is_child {
                            rep.fail(P, "R3", "terminated_after_timeout", format!("actor tag {} terminated after a handler timeout at #{s} although fail_on_timeout is off and nobody stopped it", af.tag), vec![s]);
                        }
                        for m in ix.ops.iter().filter(|o| o.tag == af.tag && o.op == OpK::Send && matches!(o.res, Some(Res::Ok))) {
                            if cause.map(|c| m.e.unwrap_or(u64::MAX) < c).unwrap_or(true) {
                                rep.premise("C11.R3.successor_handled");
                                if !ix.inv_of.contains_key(&m.msg) {
                                    rep.fail(P, "R3", "successor_lost", format!("msg {} accepted before any stop was never handled on an actor that had a handler timeout at #{s}", m.msg), vec![m.b, s]);
                                }
                            }
                        }
                        // state intact: the actor value is the same one, no lifecycle callback runs because of the timeout
                        let restart_requested = ix.ops.iter().any(|o| o.tag == af.tag && o.op == OpK::Restart && o.executed())
                            || ix.ev.iter().any(|e| matches!(&e.k, K::Effect { actor, what, .. } if *actor == af.task && *what == "ctx_restart"));
                        if !restart_requested {
                            rep.premise("C11.R3.no_restart_by_timeout");
                            if af.incs.len() > 1 {
                                rep.fail(P, "R3", "restarted_by_timeout", format!("actor tag {} went through {} incarnations after a handler timeout at #{s} although nobody requested a restart", af.tag, af.incs.len()), vec![s, af.incs[1].s_in]);
                            }
                        }
                        // state intact: checked through the fold rule (an abandoned invocation leaves no trace)
                        let mut st = (0u64, 0u64);
                        for inv in &invs {
                            if let Some((os, _, seq, fold)) = inv.out {
                                st = (st.0 + 1, mix(st.1, inv.msg));
                                if inv.obj == af.incs[0].obj && af.incs.len() == 1 {
                                    rep.premise("C11.R3.state_intact");
                                    if (seq, fold) != st {
                                        rep.fail(P, "R3", "state_not_intact", format!("state after msg {} is seq {seq} but {} completed invocations precede it", inv.msg, st.0), vec![os]);
                                        st = (seq, fold);
                                    }
                                }
                            }
                        }
                    }
                }
            }
        }
    }
    // R3 (cont.): "carries on ... with its state intact" includes the timers it had registered: an abandoned
    // invocation must not disturb their schedule (same arithmetic as C10, adopted for actors that had a timeout)
    let abandoned_actors: Vec<u32> = fx.values().filter(|a| a.decl.map(|d| d.timeout.is_some() && !d.fail_on_timeout).unwrap_or(false) && !a.faulted && ix.actors[&a.task].timeline.iter().any(|t| matches!(t, crate::index::TL::Inv(j) if ix.invs[*j].abandoned.is_some()))).map(|a| a.task).collect();
    if !abandoned_actors.is_empty() {
        let mut sub = Report::default();
        super::c10::check(cx, &mut sub);
        let tms = super::c10::timers(cx);
        if tms.iter().any(|t| abandoned_actors.contains(&t.actor)) {
            rep.premise("C11.R3.timers_intact_after_timeout");
        }
        for v in sub.violations.into_iter().filter(|v| v.rule == "R2") {
            if tms.iter().any(|t| abandoned_actors.contains(&t.actor) && v.at.first() == Some(&t.reg)) {
                rep.fail(P, "R3", format!("timers_disturbed_by_timeout;{}", v.sig), v.msg, v.at);
            }
        }
    }
    rep.nontrivial = nontrivial;
}
