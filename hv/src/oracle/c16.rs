//! C16 children live exactly as long as their parent and receive its broadcasts.
use std::collections::BTreeMap;

use super::facts::{AF, facts};
use super::{Cx, Report};
use crate::index::TL;
use crate::log::*;

const P: &str = "C16";

/// (parent task, child tag, stamp of the add/register effect, registered under: 0/1 = Bcast<T>, 2 = ())
pub fn edges(cx: &Cx) -> Vec<(u32, u32, u64, u8)> {
    cx.ix
        .ev
        .iter()
        .filter_map(|e| match &e.k {
            K::Effect { actor, what, arg, .. } if *what == "add_child" || *what == "register_child" => Some((*actor, (*arg & 0xffff_ffff) as u32, e.stamp, (*arg >> 32) as u8)),
            _ => None,
        })
        .collect()
}

fn release_point(af: &AF, cx: &Cx) -> Option<u64> {
    // earliest stamp at which the parent may have dropped its context
    let mut r: Option<u64> = None;
    if let (Some((_, Some(t_out))), true) = (af.t_final(), af.task_end.is_some()) {
        r = Some(t_out);
    }
    for e in cx.ix.ev {
        if let K::Fault { .. } = &e.k {
            if e.task == af.task {
                r = Some(r.map(|x| x.min(e.stamp)).unwrap_or(e.stamp));
            }
        }
    }
    if let Some((s, _, _)) = af.task_end {
        r = Some(r.map(|x| x.min(s)).unwrap_or(s));
    }
    // a fail_on_timeout abandonment
    if af.timeout_failed {
        if let Some(s) = cx.ix.actors[&af.task].timeline.iter().filter_map(|t| if let TL::Inv(j) = t { cx.ix.invs[*j].abandoned.map(|a| a.0) } else { None }).min() {
            r = Some(r.map(|x| x.min(s)).unwrap_or(s));
        }
    }
    r
}

pub fn check(cx: &Cx, rep: &mut Report) {
    let ix = cx.ix;
    let fx = facts(cx);
    let es = edges(cx);
    let mut nontrivial = false;
    let by_tag: BTreeMap<u32, &AF> = fx.values().filter(|a| ix.task_of(a.tag) == Some(a.task)).map(|a| (a.tag, a)).collect();
    // outside (client-held) strong count of a child at a stamp
    let outside_at = |tag: u32, stamp: u64| -> i64 {
        let mut n = 0;
        for e in ix.ev {
            if e.stamp > stamp {
                break;
            }
            if let K::Ref { tag: t, delta, c, .. } = &e.k {
                if *t == tag && *c < 1000 {
                    n += *delta as i64;
                }
            }
        }
        n
    };
    for (ptask, ctag, at, _) in &es {
        let (Some(parent), Some(child)) = (fx.get(ptask), by_tag.get(ctag)) else { continue };
        if child.failed() || child.stops.iter().any(|s| s.accepted) || child.stream_end.is_some() {
            continue;
        }
        let rel = release_point(parent, cx);
        // other parents of the same child?
        let parents: Vec<u32> = es.iter().filter(|e| e.1 == *ctag).map(|e| e.0).collect();
        let single_parent = parents.iter().all(|p| p == ptask);
        if !single_parent {
            continue;
        }
        // R1: kept alive by the parent: the child's termination does not begin before the parent's release point
        if let (Some((t_in, _)), true) = (child.t_final(), child.task_end.is_some()) {
            if t_in > *at {
                rep.premise("C16.R1.child_outlives_until_parent_ends");
                nontrivial = true;
                match rel {
                    Some(r) if t_in > r => {}
                    _ => {
                        // unless an outside handle's drop... no: while the parent holds it the child must not stop
                        rep.fail(P, "R1", "child_stopped_before_parent", format!("child tag {ctag} (added to parent tag {} at #{at}) began stopped() at #{t_in} but the parent's context was not released before {rel:?}", parent.tag), vec![*at, t_in]);
                    }
                }
            }
        }
        // R2: after the parent's task ended a child without other strong handles drains and stops gracefully
        if let Some((pend, _, _)) = parent.task_end {
            let last = ix.ev.last().map(|e| e.stamp).unwrap_or(0);
            if outside_at(*ctag, last) == 0 && *at < pend {
                rep.premise("C16.R2.released_child_stops_gracefully");
                let ok = matches!(child.task_end, Some((_, _, "done"))) && matches!(child.t_final(), Some((_, Some(_))));
                if !ok {
                    rep.fail(P, "R2", format!("released_child_not_stopped;parent_failed={}", parent.failed()), format!("child tag {ctag} has no strong handle left after parent tag {} ended at #{pend}, but task_end={:?} stopped={:?}", parent.tag, child.task_end, child.t_final()), vec![pend]);
                } else {
                    for m in ix.ops.iter().filter(|o| o.tag == *ctag && matches!(o.op, OpK::Send | OpK::ForceSend) && matches!(o.res, Some(Res::Ok))) {
                        rep.premise("C16.R2.accepted_messages_handled");
                        if !ix.inv_of.contains_key(&m.msg) {
                            rep.fail(P, "R2", "released_child_lost_message", format!("child tag {ctag}: accepted msg {} was never handled", m.msg), vec![m.b]);
                        }
                    }
                    for o in ix.ops.iter().filter(|o| o.tag == *ctag && matches!(o.op, OpK::Await | OpK::AwaitRef) && o.e.is_some()) {
                        rep.premise("C16.R2.await_ok");
                        if !matches!(o.res, Some(Res::Ok)) {
                            rep.fail(P, "R2", "released_child_await_err", format!("await on released child tag {ctag} returned {:?}", o.res), vec![o.b]);
                        }
                    }
                }
            }
            if outside_at(*ctag, pend) > 0 && *at < pend {
                // held outside when the parent ended: keeps running until those handles go (or somebody stops it)
                rep.premise("C16.R2.child_held_outside_keeps_running");
                if let (Some((t_in, _)), true) = (child.t_final(), child.task_end.is_some()) {
                    if outside_at(*ctag, t_in) > 0 {
                        rep.fail(P, "R2", "outside_held_child_stopped", format!("child tag {ctag} was still held from outside when it began stopped() at #{t_in} (parent tag {} ended at #{pend})", parent.tag), vec![pend, t_in]);
                    }
                }
            }
        }
    }
    // R3: broadcasts
    let mut unit_bcasts: Vec<(u32, u64)> = vec![]; // (parent task, stamp)
    for e in ix.ev {
        let K::Effect { actor, what, arg, .. } = &e.k else { continue };
        if !what.starts_with("send_to_children") {
            continue;
        }
        let ty: u8 = what.as_bytes().last().map(|b| b - b'0').unwrap_or(2);
        if ty == 2 {
            unit_bcasts.push((*actor, e.stamp));
            continue;
        }
        let buid = *arg;
        let recv: Vec<&crate::index::Inv> = ix.inv_of.get(&buid).map(|v| v.iter().map(|j| &ix.invs[*j]).collect()).unwrap_or_default();
        for (_, ctag, _, t) in es.iter().filter(|x| x.0 == *actor && x.2 < e.stamp) {
            let Some(child) = by_tag.get(ctag) else { continue };
            let n = recv.iter().filter(|i| i.tag == *ctag).count();
            // the same child may be registered under both types: then it is entitled to the broadcast
            let entitled = es.iter().any(|x| x.0 == *actor && x.1 == *ctag && x.2 < e.stamp && x.3 == ty);
            if *t != ty {
                if !entitled {
                    rep.premise("C16.R3.not_to_other_types");
                    if n > 0 {
                        rep.fail(P, "R3", "broadcast_to_wrong_type", format!("broadcast {buid} of type {ty} reached child tag {ctag}, which is only registered under another message type"), vec![e.stamp]);
                    }
                }
                continue;
            }
            // registered twice under the same type => delivered twice; count registrations
            let regs = es.iter().filter(|x| x.0 == *actor && x.1 == *ctag && x.2 < e.stamp && x.3 == ty).count();
            // (a stream-attached child ends with its stream whenever that is: no drain is promised for that, see C04/C13)
            let gone_before = child.first_term_cause().map(|c| c < e.stamp).unwrap_or(false) || child.failed() || child.stream_end.is_some();
            rep.premise("C16.R3.broadcast_exactly_once");
            nontrivial = true;
            let final_ok = !cx.mt || matches!(child.t_final(), Some((_, Some(_))));
            if n > regs || (n < regs && !gone_before && final_ok) {
                rep.fail(P, "R3", if n < regs { "broadcast_lost" } else { "broadcast_duplicated" }, format!("broadcast {buid} of type {ty} sent by actor task {actor} at #{} was handled {n} times by child tag {ctag} (registered {regs}x under that type)", e.stamp), vec![e.stamp]);
            }
        }
        for i in &recv {
            let registered = es.iter().any(|x| x.0 == *actor && x.1 == i.tag && x.2 < e.stamp && x.3 == ty);
            rep.premise("C16.R3.only_registered_children");
            if !registered {
                rep.fail(P, "R3", "broadcast_to_unregistered", format!("broadcast {buid} was handled by actor tag {} which is not registered under that type with the sender", i.tag), vec![e.stamp, i.i]);
            }
        }
    }
    // `()` broadcasts carry no uid: compare counts per child added with add_child
    let unit_children: std::collections::BTreeSet<u32> = es.iter().filter(|x| x.3 == 2).map(|x| x.1).collect();
    for ctag in unit_children {
        let Some(child) = by_tag.get(&ctag) else { continue };
        let expect: usize = es.iter().filter(|x| x.1 == ctag && x.3 == 2).map(|x| unit_bcasts.iter().filter(|b| b.0 == x.0 && b.1 > x.2).count()).sum();
        let got = ix.actors[&child.task].timeline.iter().filter(|t| matches!(t, TL::Inv(j) if ix.invs[*j].mk == Mk::Unit)).count();
        let gone = child.failed() || child.stream_end.is_some() || child.first_term_cause().map(|c| unit_bcasts.iter().any(|b| b.1 > c)).unwrap_or(false);
        if expect > 0 || got > 0 {
            rep.premise("C16.R3.unit_broadcast_count");
            let final_ok = !cx.mt || matches!(child.t_final(), Some((_, Some(_))));
            if got > expect || (got < expect && !gone && final_ok) {
                rep.fail(P, "R3", if got < expect { "unit_broadcast_lost" } else { "unit_broadcast_duplicated" }, format!("child tag {ctag} handled {got} `()` broadcasts, {expect} were sent to it"), vec![]);
            }
        }
    }
    rep.nontrivial = nontrivial;
}
