//! C12 bounded mailbox backpressure; unbounded and stop never wait.
use std::collections::{HashMap, HashSet};

use super::facts::facts;
use super::{Cx, Report};
use crate::log::*;

const P: &str = "C12";

pub fn check(cx: &Cx, rep: &mut Report) {
    let ix = cx.ix;
    let fx = facts(cx);
    let mut nontrivial = false;
    for af in fx.values() {
        let Some(decl) = af.decl else { continue };
        if !decl.entry.builder() {
            continue;
        }
        let sends: Vec<&crate::index::OpRec> = ix.ops.iter().filter(|o| o.tag == af.tag && o.op == OpK::Send && o.executed()).collect();
        match decl.mailbox {
            Some(n) => {
                // R1: walk the event sequence
                // a message submitted after a stop request had begun sits behind that request: it will never be handled,
                // and when the actor throws it away (with the mailbox at the very end, or as soon as it has left its
                // message loop) is not observable and not the property's business - such sends are not counted
                let stop_b = ix
                    .ops
                    .iter()
                    .filter(|o| o.tag == af.tag && o.executed() && matches!(o.op, OpK::Stop | OpK::Halt | OpK::Consume | OpK::ConsumeSync) && !matches!(o.res, Some(Res::Err(_)) | Some(Res::Skipped)))
                    .map(|o| o.b)
                    .chain(ix.ev.iter().filter(|e| matches!(&e.k, K::Effect { actor, what, arg, .. } if (*actor == af.task && *what == "ctx_stop.begin") || (*what == "reap_begin" && *arg == af.tag as u64))).map(|e| e.stamp))
                    .min()
                    .unwrap_or(u64::MAX);
                let send_ret: HashMap<u64, u64> = sends.iter().filter(|o| matches!(o.res, Some(Res::Ok)) && o.b < stop_b).filter_map(|o| o.e.map(|e| (e, o.msg))).collect();
                let mine: HashSet<u64> = sends.iter().map(|o| o.msg).collect();
                // nothing is dequeued once the loop has left for the terminating stopped(): sends parked in flush
                // then resolve Ok without ever being taken out (futures mpsc), which is "the actor terminates"
                let t_in_final = af.t_final().map(|t| t.0);
                let end = match (af.task_end, cx.mt) {
                    (Some(e), _) => t_in_final.map(|t| t.min(e.0)).unwrap_or(e.0),
                    (None, true) => t_in_final.unwrap_or(u64::MAX),
                    (None, false) => u64::MAX,
                };
                // ... nor once the actor has failed (L2 has no task-end event: the first sign of the failure - the injected
                // fault, the abandoned invocation of a fail_on_timeout actor, a started() error - ends the walk)
                let fail_at = ix
                    .ev
                    .iter()
                    .filter(|e| e.task == af.task)
                    .filter(|e| matches!(&e.k, K::Fault { .. }) || (decl.fail_on_timeout && matches!(&e.k, K::HAbandon { .. })) || matches!(&e.k, K::CbOut { cb: Cb::Started, ok: false, .. }))
                    .map(|e| e.stamp)
                    .min();
                let end = fail_at.map(|f| f.min(end)).unwrap_or(end);
                let mut returned: HashSet<u64> = HashSet::new();
                let mut dequeued: HashSet<u64> = HashSet::new();
                let mut maxo = 0usize;
                let mut senders = HashSet::new();
                for e in ix.ev {
                    if e.stamp > end {
                        break;
                    }
                    match &e.k {
                        K::OpE { .. } => {
                            if let Some(m) = send_ret.get(&e.stamp) {
                                returned.insert(*m);
                                rep.premise("C12.R1.send_returned");
                            } else {
                                continue;
                            }
                        }
                        K::HIn { msg, actor, .. } if *actor == af.task && mine.contains(msg) => {
                            dequeued.insert(*msg);
                            continue;
                        }
                        _ => continue,
                    }
                    let out = returned.difference(&dequeued).count();
                    maxo = maxo.max(out);
                    // L2: the handler-entry event is logged a few instructions after the dequeue: slack 1
                    if out > n + cx.mt as usize {
                        let w: Vec<u64> = returned.difference(&dequeued).copied().collect();
                        rep.fail(P, "R1", format!("outstanding={};n={n}", out.min(n + 2)), format!("mailbox bounded({n}) of tag {}: {out} sends have returned Ok but are not yet taken out of the mailbox at #{} (msgs {w:?})", af.tag, e.stamp), vec![e.stamp]);
                        break;
                    }
                }
                for o in &sends {
                    senders.insert(o.c);
                    if o.pending.unwrap_or(0) > 0 {
                        rep.count("C12.sends_that_waited", 1);
                        nontrivial = true;
                    }
                }
                rep.max(&format!("max.outstanding.n{n}"), maxo as u64);
                if maxo == n && n > 0 {
                    rep.count("C12.R1.bound_reached", 1);
                }
                // R4: stop while over capacity is synchronous and Ok
                for s in af.stops.iter().filter(|s| s.kind == "stop") {
                    let returned_b: usize = sends.iter().filter(|o| matches!(o.res, Some(Res::Ok)) && o.e.map(|e| e < s.b).unwrap_or(false)).count();
                    let deq_b: usize = sends.iter().filter(|o| ix.inv_of.get(&o.msg).map(|v| ix.invs[v[0]].i < s.b).unwrap_or(false)).count();
                    let pending_sends = sends.iter().filter(|o| o.b < s.b && o.e.map(|e| e > s.b).unwrap_or(true)).count();
                    if returned_b.saturating_sub(deq_b) >= n && pending_sends > 0 && s.b < end {
                        rep.premise("C12.R4.stop_while_full");
                        if !s.accepted {
                            rep.fail(P, "R4", "stop_failed_while_full", format!("stop at #{} failed while the mailbox of tag {} was full", s.b, af.tag), vec![s.b]);
                        }
                    }
                }
            }
            None => {
                // R3: on an unbounded mailbox a send never returns Pending - however long the backlog
                for o in ix.ops.iter().filter(|o| o.tag == af.tag && o.op == OpK::Burst && o.executed()) {
                    if let (Some(p), Some(Res::Count(n))) = (o.pending, &o.res) {
                        rep.premise("C12.R3.unbounded_never_waits");
                        rep.max("max.C12.R3.burst_on_unbounded", *n);
                        if p > 0 {
                            rep.fail(P, "R3", "unbounded_send_waited;burst", format!("burst c{}#{} of {n} sends on the unbounded mailbox of tag {}: {p} of them returned Pending", o.c, o.i, af.tag), vec![o.b]);
                        }
                    }
                }
                for o in &sends {
                    if let Some(p) = o.pending {
                        rep.premise("C12.R3.unbounded_never_waits");
                        if p > 0 && !matches!(o.res, Some(Res::Cancelled)) {
                            rep.fail(P, "R3", format!("unbounded_send_waited;hk={:?}", o.hk), format!("send c{}#{} via {:?} on the unbounded mailbox of tag {} returned Pending {p} time(s)", o.c, o.i, o.hk, af.tag), vec![o.b]);
                        }
                    }
                }
            }
        }
        // R2: every send resolves by the end of the scenario
        for o in &sends {
            rep.premise("C12.R2.send_resolves");
            if o.e.is_none() {
                rep.fail(P, "R2", format!("send_hangs;hk={:?}", o.hk), format!("send c{}#{} via {:?} to tag {} is still pending at the end of the scenario", o.c, o.i, o.hk, af.tag), vec![o.b]);
            }
        }
    }
    rep.nontrivial = nontrivial;
}
