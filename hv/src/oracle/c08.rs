//! C08 service registry: linearizability of registry histories against a sequential model
//! (Wing-Gong search with memoisation, partitioned per service type).
use std::collections::{HashMap, HashSet};
use std::time::Instant;

use super::{Cx, Report};
use crate::log::*;

const P: &str = "C08";

#[derive(Clone, Debug)]
enum Kind {
    /// from_registry / setup: observed identity (instance index) if known
    Lookup { res: Option<usize>, known: bool },
    /// a lookup that was dropped before it returned: it may have taken effect (in full) at any later moment, or not at all
    CancelledLookup,
    /// `prev` = identity of the returned previous entry when it could be learnt (it answered a call)
    Register { x: usize, ok: bool, prev_some: bool },
    Replace { x: usize, prev_some: bool, prev: Option<usize> },
    Unregister { prev_some: bool, prev: Option<usize> },
    TryLookup { some: bool, res: Option<usize> },
    AlreadyRunning { res: Option<bool> },
    Term { i: usize },
}

#[derive(Clone, Debug)]
struct HOp {
    b: u64,
    e: u64,
    k: Kind,
    desc: String,
}

#[derive(Clone, Copy, PartialEq, Eq, Hash)]
struct St {
    reg: Option<u8>,
    dead: u32,
    consumed: u32,
}

struct Search<'a> {
    ops: &'a [HOp],
    /// default-spawned instances: (instance index, spawn stamp)
    defaults: &'a [(usize, u64)],
    memo: HashSet<(u32, St)>,
    deadline: Instant,
    timed_out: bool,
    best: u32,
}

impl<'a> Search<'a> {
    fn apply(&self, st: St, op: &HOp) -> Vec<St> {
        let alive = |i: u8| st.dead & (1 << i) == 0;
        let mut out = vec![];
        match &op.k {
            Kind::Term { i } => out.push(St { dead: st.dead | (1 << *i), ..st }),
            Kind::Lookup { res, known } => {
                if let Some(i) = st.reg {
                    if alive(i) {
                        if !*known || *res == Some(i as usize) {
                            out.push(st);
                        }
                        return out;
                    }
                }
                // spawn a fresh default instance whose spawn happened inside this operation
                for (idx, spawn) in self.defaults {
                    if st.consumed & (1 << *idx) != 0 || *spawn < op.b || *spawn > op.e {
                        continue;
                    }
                    if *known && *res != Some(*idx) {
                        continue;
                    }
                    out.push(St { reg: Some(*idx as u8), consumed: st.consumed | (1 << *idx), ..st });
                }
            }
            Kind::CancelledLookup => {
                out.push(st);
                let live = st.reg.map(alive).unwrap_or(false);
                if !live {
                    for (idx, spawn) in self.defaults {
                        if st.consumed & (1 << *idx) != 0 || *spawn < op.b {
                            continue;
                        }
                        out.push(St { reg: Some(*idx as u8), consumed: st.consumed | (1 << *idx), ..st });
                    }
                }
            }
            Kind::Register { x, ok, prev_some } => {
                let live = st.reg.map(alive).unwrap_or(false);
                if live {
                    if !*ok {
                        out.push(st);
                    }
                } else if *ok && *prev_some == st.reg.is_some() {
                    out.push(St { reg: Some(*x as u8), ..st });
                }
            }
            Kind::Replace { x, prev_some, prev } => {
                if *prev_some == st.reg.is_some() && prev.map(|p| st.reg == Some(p as u8)).unwrap_or(true) {
                    out.push(St { reg: Some(*x as u8), ..st });
                }
            }
            Kind::Unregister { prev_some, prev } => {
                if *prev_some == st.reg.is_some() && prev.map(|p| st.reg == Some(p as u8)).unwrap_or(true) {
                    out.push(St { reg: None, ..st });
                }
            }
            Kind::TryLookup { some, res } => {
                if !*some {
                    out.push(st);
                } else if let Some(i) = st.reg {
                    if alive(i) && res.map(|r| r == i as usize).unwrap_or(true) {
                        out.push(st);
                    }
                }
            }
            Kind::AlreadyRunning { res } => {
                let expect = st.reg.map(alive);
                if *res == expect {
                    out.push(st);
                }
            }
        }
        out
    }

    fn go(&mut self, done: u32, st: St) -> bool {
        let n = self.ops.len();
        if done.count_ones() > self.best {
            self.best = done.count_ones();
        }
        if done == (1u32 << n) - 1 {
            // every default-spawned instance must be accounted for by exactly one lookup
            return self.defaults.iter().all(|(i, _)| st.consumed & (1 << *i) != 0);
        }
        if !self.memo.insert((done, st)) {
            return false;
        }
        if Instant::now() > self.deadline {
            self.timed_out = true;
            return false;
        }
        // minimal operations: not done, and begun before every other pending op's end
        let min_end = (0..n).filter(|j| done & (1 << j) == 0).map(|j| self.ops[j].e).min().unwrap_or(u64::MAX);
        for j in 0..n {
            if done & (1 << j) != 0 || self.ops[j].b > min_end {
                continue;
            }
            for st2 in self.apply(st, &self.ops[j]) {
                if self.go(done | (1 << j), st2) {
                    return true;
                }
                if self.timed_out {
                    return false;
                }
            }
        }
        false
    }
}

pub fn check(cx: &Cx, rep: &mut Report) {
    let ix = cx.ix;
    let settled = ix.phase("settled").unwrap_or(u64::MAX);
    let mut nontrivial = false;
    for k in [1u8, 2] {
        let tag = 9000 + k as u32;
        // instances of this type: default-spawned (tag 9000+k) and client-spawned (decl.k == k)
        let mut inst: Vec<Uid> = vec![]; // index -> obj
        let mut task_of_obj: HashMap<Uid, u32> = HashMap::new();
        let mut defaults: Vec<(usize, u64)> = vec![];
        let client_tags: Vec<u32> = cx.prog.actors.iter().filter(|d| d.k == k).map(|d| d.tag).collect();
        for cb in ix.cbs.iter().filter(|c| c.cb == Cb::Started && c.i < settled) {
            if cb.tag == tag || client_tags.contains(&cb.tag) {
                task_of_obj.insert(cb.obj, cb.actor);
                if !inst.contains(&cb.obj) {
                    inst.push(cb.obj);
                    if cb.tag == tag {
                        // when the instance came into being: L1 = the instant its task was spawned; L2 (no task
                        // events) = the instant the value was created by `Default::default()`, which the library calls
                        // inside the lookup (not the start of `started()`: only debug builds make the lookup wait for
                        // that)
                        let born = ix.ev.iter().find(|e| matches!(&e.k, K::ObjNew { obj, .. } if *obj == cb.obj)).map(|e| e.stamp);
                        let spawn = ix.task_kind.get(&cb.actor).map(|t| t.2).or(born).unwrap_or(cb.i);
                        defaults.push((inst.len() - 1, spawn));
                    }
                }
            }
        }
        // client-spawned instances that never got to run started() (not generated, but be safe)
        for o in ix.ops.iter().filter(|o| o.op == OpK::SpawnActor && client_tags.contains(&o.tag)) {
            if let Some(Res::Inst { obj, .. }) = &o.res {
                if !inst.contains(obj) {
                    inst.push(*obj);
                }
            }
        }
        if inst.len() > 24 {
            rep.count("C08.histories_too_large", 1);
            continue;
        }
        let idx_of = |obj: Uid| inst.iter().position(|o| *o == obj);
        // slot identities per client: (client, slot) -> obj
        let mut slot_obj: HashMap<(u16, u16), Uid> = HashMap::new();
        for o in &ix.ops {
            match (&o.op, &o.res) {
                (OpK::SpawnActor, Some(Res::Inst { obj, slot, .. })) => {
                    slot_obj.insert((o.c, *slot), *obj);
                }
                (OpK::Call, Some(Res::Reply { obj, .. })) => {
                    slot_obj.entry((o.c, o.slot)).or_insert(*obj);
                }
                // a clone denotes the same instance
                (OpK::Clone, Some(Res::Handle { slot, some: true })) => {
                    if let Some(obj) = slot_obj.get(&(o.c, o.slot)).copied() {
                        slot_obj.insert((o.c, *slot), obj);
                    }
                }
                _ => {}
            }
        }
        let mut ops: Vec<HOp> = vec![];
        let mut pending = false;
        // an operation that changes the registry but whose instance the harness cannot name must not simply be left
        // out of the history (that would make a correct history look inconsistent): such a history is not judged
        let mut unnamed = false;
        for o in ix.ops.iter().filter(|o| o.b < settled && o.executed()) {
            let is_reg_op = matches!(o.op, OpK::FromRegistry | OpK::Setup | OpK::Register | OpK::Replace | OpK::Unregister | OpK::TryFromRegistry | OpK::AlreadyRunning);
            if !is_reg_op || o.arg != k as u64 {
                continue;
            }
            let Some(e) = o.e else {
                pending = true;
                continue;
            };
            if o.op == OpK::FromRegistry && matches!(o.res, Some(Res::Cancelled)) {
                ops.push(HOp { b: o.b, e: u64::MAX, k: Kind::CancelledLookup, desc: format!("c{}#{} FromRegistry dropped at #{e}", o.c, o.i) });
                rep.premise("C08.ops.cancelled_lookup");
                continue;
            }
            let desc = format!("c{}#{} {:?} -> {:?}", o.c, o.i, o.op, o.res);
            let kind = match (&o.op, &o.res) {
                (OpK::FromRegistry, Some(Res::Handle { slot, some: true })) => {
                    let obj = slot_obj.get(&(o.c, *slot)).copied();
                    Kind::Lookup { res: obj.and_then(idx_of), known: obj.is_some() }
                }
                (OpK::Setup, _) => Kind::Lookup { res: None, known: false },
                (OpK::Register, Some(Res::Prev { ok, prev, .. })) => {
                    let Some(x) = slot_obj.get(&(o.c, o.slot)).copied().and_then(idx_of) else {
                        unnamed = true;
                        continue;
                    };
                    Kind::Register { x, ok: *ok, prev_some: prev.is_some() }
                }
                (OpK::Replace, Some(Res::Prev { prev, .. })) => {
                    let Some(x) = slot_obj.get(&(o.c, o.slot)).copied().and_then(idx_of) else {
                        unnamed = true;
                        continue;
                    };
                    let pid = prev.and_then(|s| slot_obj.get(&(o.c, s as u16)).copied()).and_then(idx_of);
                    if pid.is_some() {
                        rep.premise("C08.ops.previous_entry_identified");
                    }
                    Kind::Replace { x, prev_some: prev.is_some(), prev: pid }
                }
                (OpK::Unregister, Some(Res::Prev { prev, .. })) => {
                    let pid = prev.and_then(|s| slot_obj.get(&(o.c, s as u16)).copied()).and_then(idx_of);
                    if pid.is_some() {
                        rep.premise("C08.ops.previous_entry_identified");
                    }
                    Kind::Unregister { prev_some: prev.is_some(), prev: pid }
                }
                (OpK::TryFromRegistry, Some(Res::Handle { slot, some: true })) => Kind::TryLookup { some: true, res: slot_obj.get(&(o.c, *slot)).copied().and_then(idx_of) },
                (OpK::TryFromRegistry, Some(Res::NoneVal)) => Kind::TryLookup { some: false, res: None },
                (OpK::AlreadyRunning, Some(Res::OptBool(r))) => Kind::AlreadyRunning { res: *r },
                _ => continue,
            };
            ops.push(HOp { b: o.b, e, k: kind, desc });
        }
        // R3 (L1): "register ... otherwise fails without changing the registry": a refused register leaves the registered
        // instance alone.  Judged where the refused candidate x is itself the registered instance (an idempotent second
        // `register` of a clone, an address that came from a lookup, two tasks offering the same instance): x was
        // installed by an earlier successful register / replace, nothing has displaced it since, so the registry holds it
        // and it cannot have ended for want of handles; if it winds down after the refusal although nobody asked it to
        // (no stop / halt / consume / restart through any handle naming it, no stop from its own context, no fault), the
        // refused call did that.
        if !cx.mt {
            for o in ix.ops.iter().filter(|o| o.b < settled && o.executed() && o.op == OpK::Register && o.arg == k as u64) {
                let Some(Res::Prev { ok: false, .. }) = &o.res else { continue };
                let Some(x) = slot_obj.get(&(o.c, o.slot)).copied() else { continue };
                let Some(t) = task_of_obj.get(&x).copied() else { continue };
                let names_x = |p: &&crate::index::OpRec| slot_obj.get(&(p.c, p.slot)).copied() == Some(x);
                let installed = ix.ops.iter().filter(names_x).filter(|p| p.executed() && p.e.map(|e| e < o.b).unwrap_or(false)).filter(|p| matches!((&p.op, &p.res), (OpK::Register, Some(Res::Prev { ok: true, .. })) | (OpK::Replace, Some(Res::Prev { .. })))).map(|p| (p.b, p.c, p.i)).max();
                let Some((inst_at, inst_c, inst_i)) = installed else { continue };
                let Some(t_stop) = ix.cbs.iter().filter(|c| c.actor == t && c.cb == Cb::Stopped && c.i > o.b && c.i < settled).map(|c| c.i).min() else {
                    rep.premise("C08.R3.refused_register_leaves_registered_instance_alone");
                    continue;
                };
                let displaced = ix.ops.iter().any(|p| {
                    p.arg == k as u64 && p.e.unwrap_or(u64::MAX) > inst_at && p.b < t_stop && p.executed() && !(p.c == o.c && p.i == o.i) && !(p.c == inst_c && p.i == inst_i)
                        && matches!((&p.op, &p.res), (OpK::Unregister, _) | (OpK::Replace, _) | (OpK::Register, Some(Res::Prev { ok: true, .. })) | (OpK::SpawnRegister, _))
                });
                let asked = ix.ops.iter().filter(names_x).any(|p| p.b < t_stop && p.executed() && matches!(p.op, OpK::Stop | OpK::Halt | OpK::Consume | OpK::ConsumeSync | OpK::Restart))
                    || ix.ev.iter().any(|e| e.stamp < t_stop && (matches!(&e.k, K::Effect { actor, what, .. } if *actor == t && (*what == "ctx_stop" || *what == "reap_stop" || *what == "ctx_restart")) || (matches!(&e.k, K::Fault { .. }) && e.task == t)))
                    || cx.prog.cancel.is_some();
                if displaced || asked {
                    continue;
                }
                rep.premise("C08.R3.refused_register_leaves_registered_instance_alone");
                rep.fail(P, "R3", "refused_register_stopped_registered_instance", format!("register c{}#{} of the registered instance (obj {x}) was refused at #{}, and that instance began to stop at #{t_stop} although nobody asked it to and the registry still held it", o.c, o.i, o.b), vec![o.b, t_stop]);
            }
        }
        if unnamed {
            rep.count("C08.histories_with_unnamed_instance", 1);
            continue;
        }
        if ops.is_empty() {
            continue;
        }
        // terminations of instances: L1 = the instant the loop task ended; L2 (no task events) = some moment
        // after stopped() began / the fault was injected
        for (i, obj) in inst.iter().enumerate() {
            if let Some(t) = task_of_obj.get(obj) {
                if cx.mt {
                    // (the library announces a termination after the stopped() hook has returned: until then the
                    // instance counts as running; the hook's exit is logged before it returns)
                    let t_in = ix.cbs.iter().filter(|c| c.actor == *t && c.cb == Cb::Stopped).map(|c| c.o.map(|o| o.0).unwrap_or(c.i)).min();
                    let fault = ix.faults.iter().filter(|f| ix.ev[f.0 as usize].task == *t).map(|f| f.0).min();
                    if let Some(b) = [t_in, fault].into_iter().flatten().min() {
                        if b < settled {
                            ops.push(HOp { b, e: u64::MAX, k: Kind::Term { i }, desc: format!("termination of instance obj {obj} (some time after #{b})") });
                        }
                    }
                } else if let Some((s, _, _)) = ix.task_end.get(t) {
                    if *s < settled {
                        ops.push(HOp { b: *s, e: *s, k: Kind::Term { i }, desc: format!("termination of instance obj {obj}") });
                    }
                }
            }
        }
        if pending {
            rep.count("C08.histories_with_pending_ops_skipped", 1);
            // L1: the scenario ran to quiescence, so a registry operation that is still pending is deadlocked
            // (the registry lock is held for good).  Lookups that spawn are exempt: in debug builds the library pings
            // the new service under the lock, and a service whose started() uses the registry then waits for itself.
            if !cx.mt {
                for o in ix.ops.iter().filter(|o| o.e.is_none() && o.b < settled && o.arg == k as u64 && matches!(o.op, OpK::Register | OpK::Replace | OpK::Unregister | OpK::AlreadyRunning | OpK::TryFromRegistry)) {
                    let ctask = ix.ev[o.b as usize].task;
                    if !matches!(ix.task_end.get(&ctask), Some((_, _, "panicked"))) {
                        rep.fail(P, "R2", format!("registry_op_deadlocked={:?}", o.op), format!("{:?} c{}#{} of service type {k} is still pending when the scenario is quiescent", o.op, o.c, o.i), vec![o.b]);
                    }
                }
            }
            continue;
        }
        rep.premise("C08.R2.no_registry_op_pending_at_quiescence");
        if ops.len() > 30 {
            rep.count("C08.histories_too_large", 1);
            continue;
        }
        ops.sort_by_key(|o| (o.b, o.e));
        rep.premise("C08.R1.history_linearizable");
        rep.premise_n("C08.R1.registry_ops", ops.iter().filter(|o| !matches!(o.k, Kind::Term { .. })).count() as u64);
        for o in &ops {
            let key: &'static str = match o.k {
                Kind::Lookup { .. } => "C08.ops.lookup",
                Kind::CancelledLookup => "C08.ops.cancelled_lookup_in_history",
                Kind::Register { ok: true, .. } => "C08.ops.register_ok",
                Kind::Register { ok: false, .. } => "C08.ops.register_refused",
                Kind::Replace { .. } => "C08.ops.replace",
                Kind::Unregister { .. } => "C08.ops.unregister",
                Kind::TryLookup { some: true, .. } => "C08.ops.try_lookup_some",
                Kind::TryLookup { some: false, .. } => "C08.ops.try_lookup_none",
                Kind::AlreadyRunning { res: None } => "C08.ops.already_running_none",
                Kind::AlreadyRunning { res: Some(true) } => "C08.ops.already_running_true",
                Kind::AlreadyRunning { res: Some(false) } => "C08.ops.already_running_false",
                Kind::Term { .. } => "C08.ops.termination",
            };
            rep.premise(key);
        }
        // concurrency: two registry ops overlapping
        let overlapping = ops.iter().enumerate().any(|(a, x)| ops.iter().skip(a + 1).any(|y| y.b < x.e && x.b < y.e && !matches!(x.k, Kind::Term { .. }) && !matches!(y.k, Kind::Term { .. })));
        if overlapping {
            nontrivial = true;
            rep.premise("C08.R1.concurrent_history");
        }
        rep.premise_n("C08.R_once.default_spawns", defaults.len() as u64);
        let mut s = Search { ops: &ops, defaults: &defaults, memo: HashSet::new(), deadline: Instant::now() + std::time::Duration::from_secs(2), timed_out: false, best: 0 };
        let ok = s.go(0, St { reg: None, dead: 0, consumed: 0 });
        if s.timed_out {
            rep.count("C08.histories_inconclusive_timeout", 1);
            continue;
        }
        if !ok {
            // classify: which operation kinds are in the history (signature = the op that cannot be placed is hard
            // to name uniquely; report the set of result classes that occur)
            let mut sig: Vec<&str> = vec![];
            if ops.iter().any(|o| matches!(o.k, Kind::AlreadyRunning { res: Some(_) })) {
                sig.push("already_running");
            }
            if defaults.len() > ops.iter().filter(|o| matches!(o.k, Kind::Lookup { .. })).count() || defaults.len() >= 2 {
                sig.push("multi_spawn");
            }
            // try again ignoring already_running results to see whether they are the culprit
            let relaxed: Vec<HOp> = ops.iter().filter(|o| !matches!(o.k, Kind::AlreadyRunning { .. })).cloned().collect();
            let mut s2 = Search { ops: &relaxed, defaults: &defaults, memo: HashSet::new(), deadline: Instant::now() + std::time::Duration::from_secs(2), timed_out: false, best: 0 };
            let ok2 = s2.go(0, St { reg: None, dead: 0, consumed: 0 });
            let culprit = if ok2 { "already_running_result" } else { "registry_ops" };
            let hist: Vec<String> = ops.iter().map(|o| format!("[#{}..#{}] {}", o.b, o.e, o.desc)).collect();
            rep.fail(P, "R1", format!("not_linearizable;culprit={culprit}"), format!("registry history of service type {k} has no linearization against the sequential model (longest consistent prefix: {} of {} ops): {}", s.best, ops.len(), hist.join(" | ")), ops.iter().map(|o| o.b).collect());
        }
    }
    rep.nontrivial = nontrivial;
}
