//! C05 strong handles keep alive, weak never; last drop drains, then stops.
use super::facts::facts;
use super::{Cx, Report};
use crate::log::*;

const P: &str = "C05";

pub fn check(cx: &Cx, rep: &mut Report) {
    let ix = cx.ix;
    let fx = facts(cx);
    let broker_used = !cx.prog.topics.is_empty();
    let mut nontrivial = false;
    for af in fx.values() {
        let Some(decl) = af.decl else { continue };
        // children: C16; services: the registry holds them - unless the instance never made it into the registry
        // (every register of it was refused): then it is an ordinary actor held by its client handles
        let in_registry = decl.k != 0
            && (decl.at_setup
                || ix.ops.iter().any(|o| o.tag == af.tag && matches!(o.op, OpK::Register | OpK::Replace | OpK::SpawnRegister) && o.executed() && !matches!(o.res, Some(Res::Prev { ok: false, .. }))));
        if af.is_child || in_registry || af.refs.is_empty() {
            continue;
        }
        let stopped_by_request = af.stops.iter().any(|s| s.accepted) || af.stream_end.is_some();
        let reap = ix.phase("reap");
        // a `Sender::send` future is `'static`: parked (created, polled k times, kept) it owns a clone of the channel
        // sender, so it keeps the mailbox open after the last handle proper is gone, and what it submits is handled
        for o in ix.ops.iter().filter(|o| o.tag == af.tag && o.op == OpK::Send && o.arg >= 1 && o.executed()) {
            rep.premise("C05.R2.parked_send");
            if let (Some(g), Some(e), true) = (af.arc_gone_at, o.e, o.ok()) {
                if e > g && !af.failed() && !stopped_by_request {
                    rep.premise("C05.R2.parked_send_completed_after_last_handle");
                    nontrivial = true;
                    if !ix.inv_of.contains_key(&o.msg) && reap.map(|r| e < r).unwrap_or(true) {
                        rep.fail(P, "R2", "parked_send_lost", format!("msg {} of a parked Sender::send future was accepted (Ok at #{e}) after the last handle was gone (#{g}); nobody stopped actor tag {} and it did not fail, but the message was never handled", o.msg, af.tag), vec![o.b, g, e]);
                    }
                }
            }
        }
        // R1: never terminates while a strong handle exists (no stop, no failure)
        if !af.failed() && !stopped_by_request {
            if let Some((t_in, _)) = af.t_final() {
                // only a *terminating* stopped(): the last incarnation's, with the task ending afterwards (L2 has no
                // task-end events: there, an actor nobody tried to restart has a single, terminating stopped()).
                // The count is a lower bound of the real one on real threads too: +1 is logged after a handle was
                // obtained and -1 before it is released.
                let restart_attempted = ix.ops.iter().any(|o| o.tag == af.tag && o.op == OpK::Restart && o.executed())
                    || ix.ev.iter().any(|e| matches!(&e.k, K::Effect { actor, what, .. } if *actor == af.task && *what == "ctx_restart"));
                let terminating = af.task_end.is_some() || (cx.mt && !restart_attempted && af.incs.len() == 1);
                if terminating && reap.map(|r| t_in < r).unwrap_or(true) {
                    rep.premise("C05.R1.no_termination_while_held");
                    // (only handles proper count: a parked `Sender::send` future may keep the mailbox open - the pinned
                    // library's does, which the rules on draining allow for - but it is not one of the strong handles the
                    // property names, so an actor may also end while one is pending; and on real threads it releases its
                    // channel clone inside the future, before the harness can log it)
                    let c = af.arc_count_at(t_in);
                    if c > 0 {
                        rep.fail(P, "R1", format!("terminated_with_strong={c}"), format!("actor tag {} began stopped() at #{t_in} while the harness still held {c} strong handle(s) and nobody had stopped it", af.tag), vec![t_in]);
                    }
                }
            }
        }
        // R2: last strong handle dropped => drain, then graceful termination
        if let (Some(z), false, false) = (af.zero_at, af.failed(), stopped_by_request) {
            if reap.map(|r| z < r).unwrap_or(true) {
                rep.premise("C05.R2.last_drop_terminates");
                nontrivial = true;
                if af.has_timers {
                    rep.premise("C05.R2.with_live_timers");
                }
                let settled = ix.phase("settled").unwrap_or(u64::MAX);
                match (af.task_end.filter(|e| e.0 < settled), af.t_final()) {
                    (Some((_, _, "done")), Some((t_in, Some(_)))) => {
                        // accepted before the last drop => handled
                        for m in ix.ops.iter().filter(|o| o.tag == af.tag && matches!(o.op, OpK::Send | OpK::ForceSend) && matches!(o.res, Some(Res::Ok))) {
                            if m.e.map(|e| e < z).unwrap_or(false) {
                                rep.premise("C05.R2.accepted_then_handled");
                                if !ix.inv_of.contains_key(&m.msg) {
                                    rep.fail(P, "R2", "lost_on_last_drop", format!("msg {} accepted before the last strong handle was dropped (#{z}) was never handled", m.msg), vec![m.b, z]);
                                }
                            }
                        }
                        // exact timing when nothing inside the library can hold a transient strong handle
                        if !af.has_timers && !broker_used && decl.started.is_empty() {
                            rep.premise("C05.R2.exact_time");
                            let vt = |s: u64| ix.ev[s as usize].vt;
                            let last_exit = af.incs.last().map(|i| i.items.iter().filter_map(|j| ix.invs[*j].out.map(|o| o.1).or(ix.invs[*j].abandoned.map(|a| a.1))).max().unwrap_or(0)).unwrap_or(0);
                            let s_done = af.incs.last().and_then(|i| i.s_out).map(|s| vt(s.0)).unwrap_or(0);
                            let gone = af.gone_at.map(vt).unwrap_or(vt(z));
                            let expect = gone.max(last_exit).max(s_done);
                            if vt(t_in) != expect {
                                rep.fail(P, "R2", "late_termination", format!("actor tag {}: last strong handle gone at t={gone}, last handler exit at t={last_exit}, but stopped() began at t={}", af.tag, vt(t_in)), vec![z, t_in]);
                            }
                        }
                    }
                    (end, t) => rep.fail(P, "R2", "alive_after_last_drop", format!("actor tag {}: last strong handle dropped at #{z}, but the actor did not terminate gracefully by the end of the scenario (task_end={end:?}, stopped={t:?})", af.tag), vec![z]),
                }
            }
        }
        // quiescent invariant: an actor without strong handles is never idle and alive at a quiescent point
        if let (Some(g), false) = (af.gone_at, broker_used) {
            if !af.failed() {
                for q in ix.quiescent.iter().filter(|q| **q > g) {
                    if af.task_end.map(|e| e.0 < *q).unwrap_or(false) {
                        break;
                    }
                    rep.premise("C05.R2.quiescent_invariant");
                    // inside a handler or callback?
                    let busy = ix.actors[&af.task].timeline.iter().any(|t| match t {
                        crate::index::TL::Inv(j) => {
                            let inv = &ix.invs[*j];
                            inv.i < *q && inv.out.map(|o| o.0 > *q).unwrap_or(inv.abandoned.map(|a| a.0 > *q).unwrap_or(true))
                        }
                        crate::index::TL::Cb(j) => {
                            let cb = &ix.cbs[*j];
                            cb.i < *q && cb.o.map(|o| o.0 > *q).unwrap_or(true)
                        }
                    });
                    if !busy {
                        rep.fail(P, "R2", "idle_alive_without_strong_handles", format!("actor tag {} is idle and alive at the quiescent point #{q} although its last strong handle was dropped at #{g}", af.tag), vec![g, *q]);
                        break;
                    }
                }
            }
        }
        // R3: upgrades after the last strong handle is gone fail, for every weak kind, forever
        let mut first_none: std::collections::BTreeMap<Hk, u64> = Default::default();
        for o in ix.ops.iter().filter(|o| o.tag == af.tag && o.op == OpK::Upgrade && o.executed()) {
            let some = matches!(o.res, Some(Res::Handle { some: true, .. }));
            if let Some(g) = af.gone_at {
                if o.b > g {
                    rep.premise("C05.R3.upgrade_after_last_drop");
                    nontrivial = true;
                    if some {
                        rep.fail(P, "R3", format!("upgrade_after_last_drop={:?}", o.hk), format!("upgrade of a {:?} at #{} succeeded although the last strong handle was gone at #{g}", o.hk, o.b), vec![g, o.b]);
                    }
                }
            }
            // "fails forever once no strong handle is left": from the *first* moment without one (a successful upgrade
            // after that would itself bring the count back up and hide behind the later, final zero).  Only where
            // nothing inside the library holds a transient strong handle (a timer's or the broker's send in flight).
            if let (Some(g1), false, false, false) = (af.first_gone_at, af.has_timers, broker_used, af.parked) {
                // an operation in flight through a weak handle (`try_call`, `try_send`, ... upgrade for their own
                // duration) is a strong handle while it lasts: the count was not zero then
                let weak_op_in_flight = ix.ops.iter().any(|w| {
                    w.tag == af.tag && !w.hk.strong() && w.op != OpK::Upgrade && w.b < o.b && w.e.map(|e| e > g1).unwrap_or(true)
                });
                if o.b > g1 && !cx.mt && !weak_op_in_flight {
                    rep.premise("C05.R3.upgrade_after_first_zero");
                    if some {
                        rep.fail(P, "R3", format!("upgrade_after_first_zero={:?}", o.hk), format!("upgrade of a {:?} at #{} succeeded although no strong handle had been left at #{g1}", o.hk, o.b), vec![g1, o.b]);
                    }
                }
            }
            if let Some(n) = first_none.get(&o.hk) {
                rep.premise("C05.R3.monotone");
                if some && o.b > *n {
                    rep.fail(P, "R3", format!("upgrade_resurrected={:?}", o.hk), format!("upgrade of a {:?} succeeded at #{} after an earlier upgrade of the same kind had failed at #{n}", o.hk, o.b), vec![*n, o.b]);
                }
            }
            if !some {
                if let Some(e) = o.e {
                    first_none.entry(o.hk).or_insert(e);
                }
            }
        }
    }
    // the service registry is a strong handle too: a registry-spawned instance that nobody stops, replaces or
    // unregisters keeps running although every client handle is gone (judged before the harness' cleanup phase)
    let settled = ix.phase("settled").unwrap_or(u64::MAX);
    for k in [1u32, 2] {
        let tag = 9000 + k;
        let touched = ix.ops.iter().any(|o| o.executed() && (o.tag == tag || cx.prog.actors.iter().any(|d| d.k as u32 == k && d.tag == o.tag)) && matches!(o.op, OpK::Stop | OpK::Halt | OpK::Unregister | OpK::Replace | OpK::Register | OpK::SpawnRegister | OpK::Restart))
            || ix.ops.iter().any(|o| o.arg == k as u64 && matches!(o.op, OpK::Unregister | OpK::Replace | OpK::Register))
            || ix.ev.iter().any(|e| matches!(&e.k, K::Effect { what, .. } if *what == "ctx_stop" || *what == "reap_stop") || matches!(&e.k, K::Fault { .. }));
        if touched {
            continue;
        }
        for task in ix.tasks_of_tag.get(&tag).cloned().unwrap_or_default() {
            rep.premise("C05.R1.registry_keeps_alive");
            let client_refs_gone = ix.ev.iter().filter(|e| matches!(&e.k, K::RefGone { tag: t, .. } if *t == tag)).count() > 0;
            if client_refs_gone {
                nontrivial = true;
            }
            if let Some((end, _, how)) = ix.task_end.get(&task) {
                if *end < settled {
                    rep.fail(P, "R1", "registered_service_terminated", format!("service instance (actor task {task}, type {k}) terminated ({how}) at #{end} although it was registered and nobody stopped, replaced or unregistered it"), vec![*end]);
                }
            }
        }
    }
    // a parent's child list is a strong handle too: a child must not terminate while its parent holds it
    // (same evidence as C16.R1, reported here under the keep-alive property)
    let mut sub = Report::default();
    super::c16::check(cx, &mut sub);
    if let Some(n) = sub.premises.get("C16.R1.child_outlives_until_parent_ends") {
        rep.premise_n("C05.R1.child_list_keeps_alive", *n);
    }
    for v in sub.violations.into_iter().filter(|v| v.rule == "R1") {
        rep.fail(P, "R1", format!("terminated_while_in_child_list;{}", v.sig), v.msg, v.at);
    }
    rep.nontrivial = nontrivial;
}
