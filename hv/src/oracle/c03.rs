//! C03 lifecycle protocol per incarnation.
use super::facts::facts;
use super::{Cx, Report};
use crate::log::{K, OpK};

const P: &str = "C03";

pub fn check(cx: &Cx, rep: &mut Report) {
    let ix = cx.ix;
    let fx = facts(cx);
    let mut nontrivial = false;
    // R1 (L1): "for every incarnation (one per spawn) started exactly once": an actor whose task ran to its end got its
    // started() - also one that nobody could reach any more before its task was polled for the first time (every handle
    // dropped straight after the spawn, a duplicate service that `register()` refused).  Harness actors are the
    // tasks spawned during set-up and inside a client's spawn operation (brokers and on-demand service instances are
    // spawned elsewhere).
    if !cx.mt {
        let clients_phase = ix.phase("clients").unwrap_or(0);
        for e in ix.ev {
            let K::TaskSpawn { task, kind, .. } = &e.k else { continue };
            if *kind != "actor" {
                continue;
            }
            let in_setup = e.stamp < clients_phase;
            let in_spawn_op = ix.ops.iter().any(|o| {
                matches!(o.op, OpK::SpawnActor | OpK::SpawnRegister) && o.b < e.stamp && o.e.map(|x| x > e.stamp).unwrap_or(false) && ix.ev[o.b as usize].task == e.task
            });
            if !(in_setup || in_spawn_op) {
                continue;
            }
            rep.premise("C03.R1.every_spawn_starts");
            let started = ix.cbs.iter().any(|c| c.cb == crate::log::Cb::Started && c.actor == *task);
            if let (false, Some((end, _, "done"))) = (started, ix.task_end.get(task)) {
                rep.fail(P, "R1", "ended_without_started", format!("actor task {task} (spawned at #{}) ran to its end at #{end} without started() (and stopped()) ever being called", e.stamp), vec![e.stamp, *end]);
            }
        }
    }
    for af in fx.values() {
        let stream = af.decl.map(|d| d.entry.stream());
        if af.incs.is_empty() {
            continue;
        }
        let n = af.incs.len();
        if n > 1 {
            nontrivial = true;
        }
        // "one incarnation per spawn, one more per processed restart": without any restart attempt there is one
        let attempted = ix.ops.iter().any(|o| (o.tag == af.tag || o.tag >= 9000) && matches!(o.op, OpK::Restart) && o.executed())
            || ix.ev.iter().any(|e| matches!(&e.k, K::Effect { actor, what, .. } if *actor == af.task && *what == "ctx_restart"));
        if !attempted {
            rep.premise("C03.R1.one_incarnation_without_restart");
            if n > 1 {
                rep.fail(P, "R1", "restart_without_request", format!("actor task {} (tag {}) went through {n} incarnations although nobody requested a restart", af.task, af.tag), vec![af.incs[1].s_in]);
            }
        }
        for (k, inc) in af.incs.iter().enumerate() {
            let last = k + 1 == n;
            // R1: started first, exactly once, completed before anything else
            rep.premise("C03.R1.started_first");
            if inc.s_in == u64::MAX {
                rep.fail(P, "R1", "no_started", format!("actor task {} (tag {}) handled a message before any started()", af.task, af.tag), inc.items.iter().take(1).map(|j| ix.invs[*j].i).collect());
                continue;
            }
            let Some((s_out, ok)) = inc.s_out else {
                // started never returned: nothing may have been handled
                if !inc.items.is_empty() || inc.t.is_some() {
                    rep.fail(P, "R1", "started_incomplete", format!("actor task {} handled messages or stopped while started() had not returned", af.task), vec![inc.s_in]);
                }
                continue;
            };
            for j in &inc.items {
                if ix.invs[*j].i < s_out {
                    rep.fail(P, "R1", "handled_before_started_done", format!("msg {} handled at #{} before started() returned at #{s_out}", ix.invs[*j].msg, ix.invs[*j].i), vec![inc.s_in, ix.invs[*j].i]);
                }
            }
            if !ok {
                // R5: started error: nothing handled, no stopped, failed termination
                rep.premise("C03.R5.started_err");
                if !inc.items.is_empty() || inc.t.is_some() || inc.f.is_some() || !last {
                    rep.fail(P, "R5", "after_started_err", format!("actor task {} (tag {}) went on after started() returned an error", af.task, af.tag), vec![inc.s_in, s_out]);
                }
                // "... and the actor terminates as failed": whoever waits for it learns that it did not end gracefully
                if ix.task_of(af.tag) == Some(af.task) {
                    for o in ix.ops.iter().filter(|o| o.tag == af.tag && o.e.is_some() && o.executed()) {
                        let graceful_answer = match (&o.op, &o.res) {
                            (OpK::Await | OpK::AwaitRef | OpK::Halt, Some(crate::log::Res::Ok)) => true,
                            (OpK::Join | OpK::Consume, Some(crate::log::Res::Joined(Some(_)))) => true,
                            _ => false,
                        };
                        if graceful_answer {
                            rep.fail(P, "R5", format!("graceful_answer_after_started_err;op={:?}", o.op), format!("{:?} c{}#{} answered as for a graceful end although started() of actor tag {} had returned an error", o.op, o.c, o.i, af.tag), vec![s_out, o.b]);
                        }
                    }
                }
                continue;
            }
            // every handler bracket closed before the next opens is C01.R1; here: all inside [s_out, t_in]
            if let Some((t_in, t_out)) = inc.t {
                rep.premise("C03.R2.nothing_after_stopped");
                for j in &inc.items {
                    let inv = &ix.invs[*j];
                    let closed = inv.out.map(|o| o.0).or(inv.abandoned.map(|a| a.0));
                    if inv.i > t_in || closed.map(|c| c > t_in).unwrap_or(true) {
                        rep.fail(P, "R2", "handler_after_stopped", format!("msg {} ({:?}) handled at #{} but stopped() of that incarnation began at #{t_in}", inv.msg, inv.mk, inv.i), vec![t_in, inv.i]);
                    }
                }
                if let Some((f_in, f_out)) = inc.f {
                    rep.premise("C03.R3.finished_before_stopped");
                    if f_in > t_in || f_out.map(|f| f > t_in).unwrap_or(true) {
                        rep.fail(P, "R3", "finished_after_stopped", format!("finished() at #{f_in} not completed before stopped() at #{t_in}"), vec![f_in, t_in]);
                    }
                    for j in &inc.items {
                        if ix.invs[*j].i > f_in {
                            rep.fail(P, "R3", "handler_after_finished", format!("msg {} handled after finished()", ix.invs[*j].msg), vec![f_in, ix.invs[*j].i]);
                        }
                    }
                }
                let _ = t_out;
            }
            if !inc.extra_cb.is_empty() {
                rep.fail(P, "R3", format!("duplicate={:?}", inc.extra_cb[0].0), format!("callback {:?} ran more than once in one incarnation of actor task {}", inc.extra_cb[0].0, af.task), vec![inc.extra_cb[0].1]);
            }
            // F present iff stream-attached (on graceful ends), never on plain actors
            if let Some(st) = stream {
                if inc.f.is_some() && !st {
                    rep.fail(P, "R3", "finished_on_plain_actor", format!("finished() called on plain actor tag {}", af.tag), vec![inc.f.map(|f| f.0).unwrap_or(0)]);
                }
            }
            if !last {
                // R4: an incarnation replaced by a restart was stopped exactly once before the next started
                rep.premise("C03.R4.restart_closes_incarnation");
                match inc.t {
                    Some((_, Some(t_out))) if t_out < af.incs[k + 1].s_in => {}
                    _ => rep.fail(P, "R4", "restart_without_stopped", format!("incarnation {k} of actor task {} was replaced without a completed stopped()", af.task), vec![inc.s_in, af.incs[k + 1].s_in]),
                }
            } else if let Some((end, _, how)) = af.task_end {
                // R3: graceful end => [F] T exactly once, completed, as the last thing
                let graceful_expected = !af.failed() && how == "done";
                if graceful_expected {
                    rep.premise("C03.R3.graceful_end");
                    if !inc.items.is_empty() && (af.first_term_cause().is_some()) {
                        nontrivial = true;
                    }
                    match inc.t {
                        Some((_, Some(t_out))) if t_out < end => {}
                        _ => rep.fail(P, "R3", "no_stopped_on_graceful_end", format!("actor task {} (tag {}) ended without a completed stopped()", af.task, af.tag), vec![end]),
                    }
                    if stream == Some(true) {
                        rep.premise("C03.R3.finished_on_stream_actor");
                        if !matches!(inc.f, Some((_, Some(_)))) {
                            rep.fail(P, "R3", "no_finished_on_stream_actor", format!("stream-attached actor task {} ended gracefully without finished()", af.task), vec![end]);
                        }
                    }
                }
                // nothing of this actor after its task ended
                for t in &ix.actors[&af.task].timeline {
                    let s = match t {
                        crate::index::TL::Cb(j) => ix.cbs[*j].i,
                        crate::index::TL::Inv(j) => ix.invs[*j].i,
                    };
                    if s > end {
                        rep.fail(P, "R2", "event_after_task_end", format!("actor task {} produced a callback/handler event at #{s} after its task ended at #{end}", af.task), vec![end, s]);
                    }
                }
            }
        }
    }
    // R3': every graceful termination cause (accepted stop, last strong handle dropped, attached stream exhausted)
    // is followed, by the end of the scenario, by exactly one stopped() of the final incarnation
    let settled = ix.phase("settled").unwrap_or(u64::MAX);
    for af in fx.values() {
        let Some(decl) = af.decl else { continue };
        if af.failed() || af.is_child || decl.k != 0 || af.incs.is_empty() {
            continue;
        }
        let started_ok = af.incs.iter().all(|i| !matches!(i.s_out, Some((_, false)) | None));
        let cause = af.stops.iter().filter(|s| s.accepted).map(|s| s.r).min().into_iter().chain(af.stream_end).chain(af.zero_at).min();
        if let (Some(c), true) = (cause, started_ok) {
            rep.premise("C03.R3.cause_leads_to_stopped");
            let ok = matches!(af.t_final(), Some((_, Some(t_out))) if t_out < settled) && af.task_end.is_some();
            if !ok {
                let kind = if af.stops.iter().any(|s| s.accepted) { "stop" } else if af.stream_end.is_some() { "stream_end" } else { "last_drop" };
                rep.fail(P, "R3", format!("no_stopped_after_cause;cause={kind};stream={}", decl.entry.stream()), format!("actor tag {} had a graceful termination cause ({kind}) at #{c} but stopped() has not completed by the end of the scenario (stopped={:?}, task_end={:?})", af.tag, af.t_final(), af.task_end), vec![c]);
            }
        }
    }
    rep.nontrivial = nontrivial;
}
