//! Derived per-actor facts shared by several oracles.
use std::collections::BTreeMap;

use super::Cx;
use crate::index::TL;
use crate::log::*;
use crate::prog::ActorDecl;

#[derive(Clone, Debug)]
pub struct StopReq {
    pub b: u64,
    pub r: u64,
    /// the request was accepted (enqueued)
    pub accepted: bool,
    pub kind: &'static str,
}

#[derive(Clone, Debug, Default)]
pub struct Inc {
    pub obj: Uid,
    pub s_in: u64,
    pub s_out: Option<(u64, bool)>,
    pub items: Vec<usize>, // invocation indices
    pub f: Option<(u64, Option<u64>)>,
    pub t: Option<(u64, Option<u64>)>,
    pub extra_cb: Vec<(Cb, u64)>,
}

#[derive(Clone, Debug)]
pub struct AF<'a> {
    pub tag: u32,
    pub task: u32,
    pub decl: Option<&'a ActorDecl>,
    /// for the single instance of a registry-spawned service type: the default declaration of that type (`decl` stays
    /// None for service tags, which in general denote a type, not an instance)
    pub svc_decl: Option<&'a ActorDecl>,
    /// a fault was injected into this actor (panic, started error, cancellation)
    pub faulted: bool,
    /// fail_on_timeout fired
    pub timeout_failed: bool,
    pub stops: Vec<StopReq>,
    pub stream_end: Option<u64>,
    /// (stamp, strong count after) from the interpreter's reference model
    pub refs: Vec<(u64, i64)>,
    /// the same without parked send futures (their release happens inside the future, unobserved)
    pub arc_refs: Vec<(u64, i64)>,
    /// stamp of the Ref(-1) event after which the count is 0 for good
    pub zero_at: Option<u64>,
    /// stamp of the matching RefGone (handle really dropped)
    pub gone_at: Option<u64>,
    /// like `gone_at`, but for handles proper (a parked send future keeps the mailbox open, yet weak handles,
    /// timers and the context cannot be upgraded through it)
    pub arc_gone_at: Option<u64>,
    /// a parked `Sender::send` future existed for this actor at some point
    pub parked: bool,
    /// the first time the number of handles proper dropped to zero (stamp of the `RefGone` that follows it)
    pub first_gone_at: Option<u64>,
    pub is_child: bool,
    pub incs: Vec<Inc>,
    pub task_end: Option<(u64, u64, &'static str)>,
    pub has_timers: bool,
    /// for a child: the earliest point at which a parent that holds it began to go away (exit of the parent's final
    /// `stopped()`, else the parent's fault / task end): from then on the parent's strong handle may be released,
    /// which the reference model of the child does not see
    pub parent_release: Option<u64>,
}

impl<'a> AF<'a> {
    pub fn failed(&self) -> bool {
        self.faulted || self.timeout_failed
    }
    pub fn first_stop_b(&self) -> Option<u64> {
        self.stops.iter().map(|s| s.b).min()
    }
    pub fn first_accept_r(&self) -> Option<u64> {
        self.stops.iter().filter(|s| s.accepted).map(|s| s.r).min()
    }
    /// final incarnation's stopped() bracket
    pub fn t_final(&self) -> Option<(u64, Option<u64>)> {
        self.incs.last().and_then(|i| i.t)
    }
    pub fn arc_count_at(&self, stamp: u64) -> i64 {
        let mut c = 0;
        for (s, n) in &self.arc_refs {
            if *s <= stamp {
                c = *n;
            } else {
                break;
            }
        }
        c
    }
    pub fn count_at(&self, stamp: u64) -> i64 {
        let mut c = 0;
        for (s, n) in &self.refs {
            if *s <= stamp {
                c = *n;
            } else {
                break;
            }
        }
        c
    }
    /// earliest stamp of any termination request / cause visible to the harness
    pub fn first_term_cause(&self) -> Option<u64> {
        [self.first_stop_b(), self.stream_end, self.zero_at, self.parent_release].into_iter().flatten().min()
    }
}

pub fn facts<'a>(cx: &'a Cx) -> BTreeMap<u32, AF<'a>> {
    let ix = cx.ix;
    let mut out: BTreeMap<u32, AF<'a>> = BTreeMap::new();
    for (task, a) in &ix.actors {
        let unique = ix.task_of(a.tag) == Some(*task);
        let decl = if unique { cx.prog.actors.iter().find(|d| d.tag == a.tag) } else { None };
        let svc_decl = if a.tag >= 9000 && ix.tasks_of_tag.get(&a.tag).map(|v| v.len() == 1).unwrap_or(false) { cx.prog.defaults.iter().find(|d| d.tag == a.tag) } else { None };
        let mut af = AF {
            tag: a.tag,
            task: *task,
            decl,
            svc_decl,
            faulted: false,
            timeout_failed: false,
            stops: vec![],
            stream_end: None,
            refs: vec![],
            arc_refs: vec![],
            zero_at: None,
            gone_at: None,
            arc_gone_at: None,
            parked: false,
            first_gone_at: None,
            is_child: false,
            incs: vec![],
            task_end: a.end,
            has_timers: false,
            parent_release: None,
        };
        // incarnations
        for t in &a.timeline {
            match t {
                TL::Cb(j) => {
                    let cb = &ix.cbs[*j];
                    match cb.cb {
                        Cb::Started => af.incs.push(Inc { obj: cb.obj, s_in: cb.i, s_out: cb.o.map(|(s, _, ok)| (s, ok)), ..Default::default() }),
                        Cb::Finished => {
                            if let Some(i) = af.incs.last_mut() {
                                if i.f.is_none() && i.t.is_none() {
                                    i.f = Some((cb.i, cb.o.filter(|o| o.2).map(|o| o.0)));
                                } else {
                                    i.extra_cb.push((Cb::Finished, cb.i));
                                }
                            }
                        }
                        Cb::Stopped => {
                            if let Some(i) = af.incs.last_mut() {
                                if i.t.is_none() {
                                    // completed only if the callback returned (ok); a dropped one is not
                                    i.t = Some((cb.i, cb.o.filter(|o| o.2).map(|o| o.0)));
                                } else {
                                    i.extra_cb.push((Cb::Stopped, cb.i));
                                }
                            }
                        }
                    }
                }
                TL::Inv(j) => {
                    if let Some(i) = af.incs.last_mut() {
                        i.items.push(*j);
                    } else {
                        af.incs.push(Inc { obj: 0, s_in: u64::MAX, ..Default::default() });
                        if let Some(i) = af.incs.last_mut() {
                            i.items.push(*j);
                        }
                    }
                }
            }
        }
        out.insert(*task, af);
    }
    // faults, stream ends, timers by task
    for e in ix.ev {
        match &e.k {
            K::Fault { .. } => {
                if let Some(af) = out.get_mut(&e.task) {
                    af.faulted = true;
                }
            }
            K::StreamEnd { .. } => {
                if let Some(af) = out.get_mut(&e.task) {
                    af.stream_end.get_or_insert(e.stamp);
                }
            }
            K::TimerReg { actor, .. } => {
                if let Some(af) = out.get_mut(actor) {
                    af.has_timers = true;
                }
            }
            K::HAbandon { actor, .. } => {
                if let Some(af) = out.get_mut(actor) {
                    if af.decl.map(|d| d.fail_on_timeout && d.timeout.is_some()).unwrap_or(false) && !af.faulted {
                        af.timeout_failed = true;
                    }
                }
            }
            K::Effect { what, ok, arg, .. } if *what == "reap_stop" => {
                if let Some(task) = ix.task_of(*arg as u32) {
                    if let Some(af) = out.get_mut(&task) {
                        // begun at the matching reap_begin marker (logged before the call)
                        let b = ix.ev[..e.stamp as usize].iter().rev().find(|x| matches!(&x.k, K::Effect { what, arg: a, .. } if *what == "reap_begin" && a == arg)).map(|x| x.stamp).unwrap_or(e.stamp);
                        af.stops.push(StopReq { b, r: e.stamp, accepted: *ok, kind: "reap" });
                    }
                }
            }
            K::Effect { actor, what, ok, .. } if *what == "ctx_stop" => {
                if let Some(af) = out.get_mut(actor) {
                    af.stops.push(StopReq { b: ix.effect_begin(e.stamp), r: e.stamp, accepted: *ok, kind: "ctx_stop" });
                }
            }
            _ => {}
        }
    }
    // a HAbandon caused by an injected panic is not a timeout: recompute timeout_failed where faulted
    for af in out.values_mut() {
        if af.faulted {
            af.timeout_failed = false;
        }
    }
    // client-side stop requests and the reference model, by tag (unique-task tags only)
    let by_tag: BTreeMap<u32, u32> = out.values().filter(|a| ix.task_of(a.tag) == Some(a.task)).map(|a| (a.tag, a.task)).collect();
    for o in &ix.ops {
        let Some(task) = by_tag.get(&o.tag) else { continue };
        let Some(af) = out.get_mut(task) else { continue };
        if !o.executed() {
            continue;
        }
        let r = o.e.unwrap_or(u64::MAX);
        match o.op {
            OpK::Stop => af.stops.push(StopReq { b: o.b, r, accepted: matches!(o.res, Some(Res::Ok)), kind: "stop" }),
            OpK::Halt => {
                // halt = stop()? then await: Err("send"/"already_stopped") means the stop itself failed
                let accepted = match &o.res {
                    Some(Res::Ok) => true,
                    Some(Res::Err(e)) => *e == "canceled",
                    None => false, // still pending: unknown; treat as not (yet) accepted for R2 purposes
                    _ => false,
                };
                af.stops.push(StopReq { b: o.b, r, accepted, kind: "halt" });
            }
            OpK::Consume => {
                let accepted = matches!(&o.res, Some(Res::Joined(_))) || matches!(&o.res, Some(Res::Err(e)) if *e == "already_stopped");
                af.stops.push(StopReq { b: o.b, r, accepted, kind: "consume" });
            }
            OpK::ConsumeSync => {
                let accepted = matches!(&o.res, Some(Res::Handle { some: true, .. }));
                af.stops.push(StopReq { b: o.b, r, accepted, kind: "consume_sync" });
            }
            _ => {}
        }
    }
    let mut counts: BTreeMap<u32, i64> = BTreeMap::new();
    let mut arc_counts: BTreeMap<u32, i64> = BTreeMap::new();
    let mut arc_last: BTreeMap<u32, (u64, i64)> = BTreeMap::new();
    for e in ix.ev {
        match &e.k {
            K::Ref { tag, delta, c, hk } => {
                if let Some(task) = by_tag.get(tag) {
                    if let Some(af) = out.get_mut(task) {
                        if *hk == Hk::Fut {
                            af.parked = true;
                        }
                        if *hk != Hk::Fut {
                            let n = arc_counts.entry(*tag).or_insert(0i64);
                            *n += *delta as i64;
                            arc_last.insert(*tag, (e.stamp, *n));
                            af.arc_refs.push((e.stamp, *n));
                        }
                        if *c >= 1000 {
                            af.is_child = true;
                        }
                        let n = counts.entry(*tag).or_insert(0);
                        *n += *delta as i64;
                        af.refs.push((e.stamp, *n));
                    }
                } else if *c >= 1000 {
                    // child handle for a tag whose actor never started (no timeline): nothing to do
                }
            }
            _ => {}
        }
    }
    // children: when may the parent's handle go away?
    let mut release: BTreeMap<u32, u64> = BTreeMap::new(); // child tag -> stamp
    for e in ix.ev {
        if let K::Effect { actor, what, arg, .. } = &e.k {
            if *what == "add_child" || *what == "register_child" {
                let ctag = (*arg & 0xffff_ffff) as u32;
                if let Some(p) = out.get(actor) {
                    let fault = ix.ev.iter().find(|x| x.task == p.task && matches!(x.k, K::Fault { .. })).map(|x| x.stamp);
                    let at = p.t_final().and_then(|t| t.1).into_iter().chain(fault).chain(p.task_end.map(|t| t.0)).min();
                    if let Some(at) = at {
                        let r = release.entry(ctag).or_insert(at);
                        *r = (*r).min(at);
                    }
                }
            }
        }
    }
    // a child handle that travelled inside a message which was never handled (queued behind a stop, cancelled with its
    // parent) never reached a child list: it was destroyed with the message, no later than the parent's mailbox
    for e in ix.ev {
        let K::Ref { tag: ctag, c, delta: 1, .. } = &e.k else { continue };
        if *c < 1000 {
            continue;
        }
        let cl = *c - 1000;
        let Some(o) = ix.ops.iter().find(|o| o.c == cl && o.b < e.stamp && o.e.map(|x| x > e.stamp).unwrap_or(true) && matches!(o.op, OpK::Send | OpK::Call)) else { continue };
        if ix.inv_of.get(&o.msg).map(|v| !v.is_empty()).unwrap_or(false) {
            continue;
        }
        if let Some(at) = out.values().find(|p| p.tag == o.tag).and_then(|p| p.task_end.map(|t| t.0)) {
            let r = release.entry(*ctag).or_insert(at);
            *r = (*r).min(at);
        }
    }
    for af in out.values_mut() {
        af.parent_release = release.get(&af.tag).copied();
    }
    for af in out.values_mut() {
        if let Some((s, _)) = af.arc_refs.iter().find(|(_, n)| *n == 0).copied() {
            af.first_gone_at = ix.ev[(s as usize).min(ix.ev.len())..]
                .iter()
                .find(|e| matches!(&e.k, K::RefGone { tag, hk, .. } if *tag == af.tag && *hk != Hk::Fut))
                .map(|e| e.stamp);
        }
        if let Some((s, 0)) = arc_last.get(&af.tag).copied() {
            af.arc_gone_at = ix.ev[(s as usize).min(ix.ev.len())..]
                .iter()
                .find(|e| matches!(&e.k, K::RefGone { tag, hk, .. } if *tag == af.tag && *hk != Hk::Fut))
                .map(|e| e.stamp);
        }
        if let Some((s, 0)) = af.refs.last().copied() {
            af.zero_at = Some(s);
            // matching RefGone: first RefGone of this tag after s
            af.gone_at = ix.ev[(s as usize).min(ix.ev.len())..]
                .iter()
                .find(|e| matches!(&e.k, K::RefGone { tag, .. } if *tag == af.tag))
                .map(|e| e.stamp);
        }
    }
    out
}
