//! Oracle framework: each property is a list of rules; each rule has a premise counter.
use std::collections::BTreeMap;

use crate::index::Index;
use crate::prog::Program;
use crate::scenario::Trace;

pub mod c01;
pub mod c02;
pub mod c03;
pub mod c04;
pub mod c05;
pub mod c06;
pub mod c07;
pub mod c08;
pub mod c09;
pub mod c10;
pub mod c11;
pub mod c12;
pub mod c13;
pub mod c14;
pub mod c15;
pub mod c16;
pub mod c17;
pub mod facts;

#[derive(Clone, Debug)]
pub struct Violation {
    pub prop: &'static str,
    pub rule: &'static str,
    /// discriminating attributes for known-finding matching ("k=v;k=v")
    pub sig: String,
    pub msg: String,
    pub at: Vec<u64>,
}

#[derive(Default, Debug)]
pub struct Report {
    pub violations: Vec<Violation>,
    /// rule -> number of times its premise held
    pub premises: BTreeMap<&'static str, u64>,
    /// extra counters (tie-break outcomes, max outstanding, ...)
    pub counters: BTreeMap<String, u64>,
    pub nontrivial: bool,
    /// the oracle could not judge this trace (e.g. step cap)
    pub inconclusive: bool,
}

impl Report {
    pub fn premise(&mut self, rule: &'static str) {
        *self.premises.entry(rule).or_insert(0) += 1;
    }
    pub fn premise_n(&mut self, rule: &'static str, n: u64) {
        *self.premises.entry(rule).or_insert(0) += n;
    }
    pub fn count(&mut self, k: &str, n: u64) {
        *self.counters.entry(k.to_string()).or_insert(0) += n;
    }
    pub fn max(&mut self, k: &str, n: u64) {
        let e = self.counters.entry(k.to_string()).or_insert(0);
        if n > *e {
            *e = n;
        }
    }
    pub fn fail(&mut self, prop: &'static str, rule: &'static str, sig: impl Into<String>, msg: impl Into<String>, at: Vec<u64>) {
        self.violations.push(Violation { prop, rule, sig: sig.into(), msg: msg.into(), at });
    }
}

pub struct Cx<'a> {
    pub prog: &'a Program,
    pub tr: &'a Trace,
    pub ix: &'a Index<'a>,
}

pub fn check(prop: &str, cx: &Cx, rep: &mut Report) {
    if cx.tr.inconclusive() {
        rep.inconclusive = true;
        return;
    }
    match prop {
        "C01" => c01::check(cx, rep),
        "C02" => c02::check(cx, rep),
        "C03" => c03::check(cx, rep),
        "C04" => c04::check(cx, rep),
        "C05" => c05::check(cx, rep),
        "C06" => c06::check(cx, rep),
        "C07" => c07::check(cx, rep),
        "C08" => c08::check(cx, rep),
        "C09" => c09::check(cx, rep),
        "C10" => c10::check(cx, rep),
        "C11" => c11::check(cx, rep),
        "C12" => c12::check(cx, rep),
        "C13" => c13::check(cx, rep),
        "C14" => c14::check(cx, rep),
        "C15" => c15::check(cx, rep),
        "C16" => c16::check(cx, rep),
        "C17" => c17::check(cx, rep),
        _ => panic!("no oracle for {prop}"),
    }
}
