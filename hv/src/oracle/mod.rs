//! Oracle framework: each property is a list of rules; each rule has a premise counter.
use std::collections::BTreeMap;

use crate::index::Index;
use crate::prog::Program;
use crate::scenario::Trace;

pub mod c01;
pub mod c02;
pub mod c03;
pub mod c04;
pub mod c05;
pub mod c06;
pub mod c07;
pub mod c08;
pub mod c09;
pub mod c10;
pub mod c11;
pub mod c12;
pub mod c13;
pub mod c14;
pub mod c15;
pub mod c16;
pub mod c17;
pub mod facts;

#[derive(Clone, Debug)]
pub struct Violation {
    pub prop: &'static str,
    pub rule: &'static str,
    /// discriminating attributes for known-finding matching ("k=v;k=v")
    pub sig: String,
    pub msg: String,
    pub at: Vec<u64>,
}

#[derive(Default, Debug)]
pub struct Report {
    pub violations: Vec<Violation>,
    /// rule -> number of times its premise held
    pub premises: BTreeMap<&'static str, u64>,
    /// extra counters (tie-break outcomes, max outstanding, ...)
    pub counters: BTreeMap<String, u64>,
    pub nontrivial: bool,
    /// the oracle could not judge this trace (e.g. step cap)
    pub inconclusive: bool,
}

impl Report {
    pub fn premise(&mut self, rule: &'static str) {
        *self.premises.entry(rule).or_insert(0) += 1;
    }
    pub fn premise_n(&mut self, rule: &'static str, n: u64) {
        *self.premises.entry(rule).or_insert(0) += n;
    }
    pub fn count(&mut self, k: &str, n: u64) {
        *self.counters.entry(k.to_string()).or_insert(0) += n;
    }
    pub fn max(&mut self, k: &str, n: u64) {
        let e = self.counters.entry(k.to_string()).or_insert(0);
        if n > *e {
            *e = n;
        }
    }
    pub fn fail(&mut self, prop: &'static str, rule: &'static str, sig: impl Into<String>, msg: impl Into<String>, at: Vec<u64>) {
        self.violations.push(Violation { prop, rule, sig: sig.into(), msg: msg.into(), at });
    }
}

pub struct Cx<'a> {
    pub prog: &'a Program,
    pub tr: &'a Trace,
    pub ix: &'a Index<'a>,
    /// L2 (real multi-threaded tokio): only rules that are sound under real time are reported
    pub mt: bool,
}

pub const ENGINE_MT: bool = cfg!(all(feature = "mt", not(feature = "l1")));

/// Rules whose verdict is sound on L2 traces: they only use (a) the order of events of one actor task,
/// (b) "returned before begun" orders of client-boundary stamps taken under the log lock, (c) facts that are
/// final once observed (a handler ran, a delivery happened), or (d) are guarded by "the actor has completed
/// stopped()" so that absence of an event is final.  Nothing here uses task-end events (L2 has none), virtual
/// time, quiescence, or wall-clock upper bounds.
fn mt_sound(prop: &str, rule: &str, sig: &str) -> bool {
    match (prop, rule) {
        ("C01", _) => true,
        ("C02", "R1" | "R2" | "R3") => true,
        ("C03", "R1" | "R2" | "R4") => !sig.contains("task_end"),
        ("C03", "R3") => sig.starts_with("finished_after") || sig.starts_with("handler_after_finished") || sig.starts_with("duplicate") || sig.starts_with("finished_on_plain"),
        ("C04", "R1" | "R2") => true,
        ("C04", "R4") => sig.starts_with("early"),
        ("C05", "R3") => sig.starts_with("upgrade_after_last_drop"),
        ("C05", "R1") => sig.starts_with("terminated_with_strong"),
        ("C07", "R2") => true,
        ("C07", "R3") => sig.starts_with("restart_only_changed") || sig.starts_with("recreate_kept") || sig.starts_with("state;") || sig.starts_with("non_restartable_restarted") || sig.starts_with("no_stopped_before_restart"),
        ("C08", "R1") => true,
        ("C10", "R1" | "R3") => true,
        ("C15", "R1") => sig != "stop_starved",
        ("C15", "R4") => true,
        ("C15", "R2") => !sig.starts_with("c07:"),
        ("C15", "R5") => !sig.starts_with("c09:") || sig.starts_with("c09:R1") || sig.starts_with("c09:R2") || sig.starts_with("c09:R3"),
        ("C15", "R6") => true,
        ("C09", "R1" | "R2" | "R3" | "R4") => true,
        ("C12", "R1" | "R3") => true,
        ("C13", "R1" | "R3") => !sig.starts_with("unfinished"),
        ("C16", "R3") => true,
        ("C17", "R2" | "R3") => true,
        ("C17", "R1") => sig == "join_some_before_stopped" || sig.starts_with("first_join_none"),
        _ => false,
    }
}

fn mt_premise(key: &str) -> bool {
    const OK: [&str; 39] = [
        "C07.R2", "C07.R3.strategy_model", "C07.R3.state_carried_or_reset", "C07.R3.non_restartable_ignores", "C07.R1", "C10.R1", "C10.R3", "C15.R1", "C15.R2", "C15.R4", "C15.R5",
        "C15.R9", "C15.R6",
        "C01.", "C02.R1", "C02.R2", "C02.R3", "C03.R1", "C03.R2", "C03.R4", "C04.R1", "C04.R2", "C04.R4", "C05.R3.upgrade_after_last_drop", "C05.R1.no_termination_while_held", "C08.", "C09.R1", "C09.R2", "C09.R3",
        "C09.R4", "C12.R1", "C12.R3", "C13.R1", "C13.R3", "C16.R3", "C17.R2", "C17.R3", "C17.R1.join_after_stopped", "C17.R1.first_join_result",
    ];
    OK.iter().any(|p| key.starts_with(p))
}

pub fn check(prop: &str, cx: &Cx, rep: &mut Report) {
    if cx.tr.inconclusive() {
        // step cap / watchdog: nothing can be concluded from what did *not* happen, but a bounded-progress rule
        // over the recorded prefix is still sound: an accepted stop must not be starved by an endless stream
        rep.inconclusive = true;
        if prop == "C13" || prop == "C04" || prop == "C15" {
            stop_starvation(prop, cx, rep);
        }
        if prop == "C13" || prop == "C02" {
            submission_starvation(prop, cx, rep);
        }
        return;
    }
    match prop {
        "C01" => c01::check(cx, rep),
        "C02" => c02::check(cx, rep),
        "C03" => c03::check(cx, rep),
        "C04" => c04::check(cx, rep),
        "C05" => c05::check(cx, rep),
        "C06" => c06::check(cx, rep),
        "C07" => c07::check(cx, rep),
        "C08" => c08::check(cx, rep),
        "C09" => c09::check(cx, rep),
        "C10" => c10::check(cx, rep),
        "C11" => c11::check(cx, rep),
        "C12" => c12::check(cx, rep),
        "C13" => c13::check(cx, rep),
        "C14" => c14::check(cx, rep),
        "C15" => c15::check(cx, rep),
        "C16" => c16::check(cx, rep),
        "C17" => c17::check(cx, rep),
        _ => panic!("no oracle for {prop}"),
    }
    if cx.mt {
        rep.violations.retain(|v| mt_sound(v.prop, v.rule, &v.sig));
        let keys: Vec<&'static str> = rep.premises.keys().copied().collect();
        for k in keys {
            if !mt_premise(k) {
                rep.premises.remove(k);
            } else if let Some(n) = rep.premises.remove(k) {
                // L2 premises are reported under their own names so that L1's required premises stay meaningful
                let name: &'static str = Box::leak(format!("L2:{k}").into_boxed_str());
                rep.premises.insert(name, n);
            }
        }
    }
}

/// After an accepted stop request has returned, a stream-attached actor handles at most 200 further stream items
/// (the unchanged loop takes the mailbox with probability 1/2 per iteration).  Prefix-safe: also evaluated on
/// executions that hit the step cap, where it is the only rule evaluated.
/// Prefix-safe like `stop_starvation`: the loop of a stream-attached actor chooses fairly between its mailbox and its
/// stream, so a call or ping that is in the mailbox is not overtaken by hundreds of stream items (with the library's
/// random choice the chance of 400 in a row is 2^-400; the executor's own fairness bound is 48 decisions).
pub fn submission_starvation(prop: &str, cx: &Cx, rep: &mut Report) {
    use crate::log::{K, Mk, OpK};
    let ix = cx.ix;
    let (p, rule, key): (&'static str, &'static str, &'static str) = if prop == "C13" { ("C13", "R5", "C13.R5.bounded_progress_of_messages") } else { ("C02", "R4", "C02.R4.call_not_starved_by_stream") };
    for d in cx.prog.actors.iter().filter(|d| d.entry.stream()) {
        let Some(task) = ix.task_of(d.tag) else { continue };
        let items: Vec<u64> = ix.ev.iter().filter(|e| matches!(&e.k, K::HIn { mk: Mk::Item, actor, .. } if *actor == task)).map(|e| e.stamp).collect();
        // (calls only: their handler entry is an event of the actor itself; when a *client* gets to see a reply
        // depends on when the actor's task yields, which a long run of ready items postpones legitimately)
        for o in ix.ops.iter().filter(|o| o.tag == d.tag && o.op == OpK::Call && o.msg != 0 && o.executed() && o.path == crate::log::Path::Forcing) {
            rep.premise(key);
            let done = ix.inv_of.get(&o.msg).and_then(|v| v.first()).map(|j| ix.invs[*j].i).unwrap_or(if o.is_err() || matches!(o.res, Some(crate::log::Res::Cancelled)) { o.e.unwrap_or(u64::MAX) } else { u64::MAX });
            let overtaken = items.iter().filter(|s| **s > o.b && **s < done).count();
            if overtaken > 400 {
                rep.fail(p, rule, format!("submission_starved;op={:?}", o.op), format!("stream actor tag {}: {overtaken} stream items were handled after {:?} c{}#{} began at #{} and before it was handled / answered", d.tag, o.op, o.c, o.i, o.b), vec![o.b]);
                break;
            }
        }
    }
}

/// L1: an actor that has accepted a stop request (from outside or from its own context, from whichever callback) is
/// never idle and alive at a quiescent point afterwards - it is on its way out, not waiting for the next message.
/// Returns (tag, stamp of the request's return, quiescent stamp).
pub fn idle_after_accepted_stop(cx: &Cx) -> Vec<(u32, u64, u64)> {
    let ix = cx.ix;
    let mut out = vec![];
    if cx.mt {
        return out;
    }
    let fx = facts::facts(cx);
    for af in fx.values() {
        if af.failed() {
            continue;
        }
        let Some(acc) = af.first_accept_r() else { continue };
        // a stop accepted while the final stopped() is already running is moot
        if af.t_final().map(|t| t.0 < acc).unwrap_or(false) && af.task_end.is_some() {
            continue;
        }
        for q in ix.quiescent.iter().filter(|q| **q > acc) {
            if af.task_end.map(|e| e.0 < *q).unwrap_or(false) {
                break;
            }
            let busy = ix.actors[&af.task].timeline.iter().any(|t| match t {
                crate::index::TL::Inv(j) => {
                    let inv = &ix.invs[*j];
                    inv.i < *q && inv.out.map(|o| o.0 > *q).unwrap_or(inv.abandoned.map(|a| a.0 > *q).unwrap_or(true))
                }
                crate::index::TL::Cb(j) => {
                    let cb = &ix.cbs[*j];
                    cb.i < *q && cb.o.map(|o| o.0 > *q).unwrap_or(true)
                }
            });
            if !busy {
                out.push((af.tag, acc, *q));
                break;
            }
        }
    }
    out
}

/// A call whose handler ran to completion gets that handler's reply: whatever else happens to the actor afterwards (a
/// stop that was queued right behind it, the termination announcement racing the reply), the answer was produced and
/// belongs to the caller.  Returns (op index in `ix.ops`, handler exit stamp).  Sound on L2 (all facts are final).
pub fn handled_call_without_reply(cx: &Cx) -> Vec<(usize, u64)> {
    use crate::log::{OpK, Res};
    let ix = cx.ix;
    let mut out = vec![];
    for (j, o) in ix.ops.iter().enumerate() {
        if o.op != OpK::Call || !o.executed() || o.msg == 0 || o.e.is_none() || matches!(o.res, Some(Res::Cancelled) | Some(Res::Reply { .. })) {
            continue;
        }
        let Some(v) = ix.inv_of.get(&o.msg) else { continue };
        if v.len() != 1 {
            continue;
        }
        if let Some((s, _, _, _)) = ix.invs[v[0]].out {
            out.push((j, s));
        }
    }
    out
}

pub fn stop_starvation(prop: &str, cx: &Cx, rep: &mut Report) {
    use crate::log::{K, Mk, OpK, Res};
    let ix = cx.ix;
    let (p, rule, key): (&'static str, &'static str, &'static str) = match prop {
        "C13" => ("C13", "R5", "C13.R5.bounded_progress_after_stop"),
        "C15" => ("C15", "R1", "C15.R1.accepted_stop_takes_effect"),
        _ => ("C04", "R3", "C04.R3.stop_not_starved_by_stream"),
    };
    for d in cx.prog.actors.iter().filter(|d| d.entry.stream()) {
        let Some(task) = ix.task_of(d.tag) else { continue };
        // accepted stop requests: from outside, or the actor's own `ctx.stop()`
        let own = ix.ev.iter().filter(|e| matches!(&e.k, K::Effect { actor, what, ok: true, .. } if *actor == task && *what == "ctx_stop")).map(|e| e.stamp).min();
        let acc = ix.ops.iter().filter(|o| o.tag == d.tag && o.op == OpK::Stop && matches!(o.res, Some(Res::Ok))).filter_map(|o| o.e).chain(own).min();
        let Some(acc) = acc else { continue };
        let after = ix.ev.iter().filter(|e| e.stamp > acc && matches!(&e.k, K::HIn { mk: Mk::Item, actor, .. } if *actor == task)).count();
        rep.premise(key);
        if after > 200 {
            rep.fail(p, rule, "stop_starved", format!("stream actor tag {}: {after} items handled after an accepted stop returned at #{acc}", d.tag), vec![acc]);
        }
    }
}
