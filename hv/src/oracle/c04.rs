//! C04 stop is a drain barrier; termination announced after stopped().
use super::facts::facts;
use super::{Cx, Report};
use crate::log::*;

const P: &str = "C04";

pub fn check(cx: &Cx, rep: &mut Report) {
    let ix = cx.ix;
    let fx = facts(cx);
    let mut nontrivial = false;
    // slot lineage for the awaiter-shape signature: (client, new slot) -> (op, source slot)
    for af in fx.values() {
        let Some(decl) = af.decl else { continue };
        // a stream-attached actor ends with its stream, whenever that is: no drain guarantee is stated for that
        let clean = !af.failed() && decl.timeout.is_none() && af.stream_end.is_none();
        let subs: Vec<&crate::index::OpRec> = ix.ops.iter().filter(|o| o.tag == af.tag && o.is_submit() && o.executed()).collect();
        // on L2 "never handled" is only final once the actor has completed stopped()
        let final_ok = !cx.mt || matches!(af.t_final(), Some((_, Some(_))));
        if clean && final_ok {
            let cause = af.first_term_cause();
            for m in &subs {
                let Some(r) = m.e else { continue };
                // R1: completed before any stop request / termination cause => handled, call Ok
                if cause.map(|c| r < c).unwrap_or(true) {
                    match (&m.op, &m.res) {
                        (OpK::Send | OpK::ForceSend, Some(Res::Ok)) => {
                            // only judged once the actor has terminated or the scenario is over (it is)
                            rep.premise("C04.R1.send_before_stop_handled");
                            if !ix.inv_of.contains_key(&m.msg) {
                                rep.fail(P, "R1", format!("lost={:?}", m.path), format!("msg {} accepted (send returned Ok at #{r}) before any stop request (first cause at {:?}) was never handled", m.msg, cause), vec![m.b, r]);
                            }
                        }
                        (OpK::Call | OpK::Ping, Some(Res::Err(e))) => {
                            rep.premise("C04.R1.call_before_stop_ok");
                            rep.fail(P, "R1", format!("call_err_before_stop={e}"), format!("{:?} c{}#{} returned Err({e}) at #{r} although no stop request had been issued (first cause at {:?}) and the actor did not fail", m.op, m.c, m.i, cause), vec![m.b, r]);
                        }
                        (OpK::Call | OpK::Ping, Some(Res::Ok | Res::Reply { .. })) => rep.premise("C04.R1.call_before_stop_ok"),
                        // a call through an address is in the mailbox after its first poll: giving up on the answer
                        // later does not take the message back - it is still handled
                        (OpK::Call, Some(Res::Cancelled)) if m.path == Path::Forcing && m.pending.unwrap_or(0) >= 1 && m.msg != 0 => {
                            rep.premise("C04.R1.abandoned_call_still_handled");
                            if !ix.inv_of.contains_key(&m.msg) {
                                rep.fail(P, "R1", "abandoned_call_lost", format!("call c{}#{} (msg {}) was in the mailbox (polled {} time(s)) when its caller gave up at #{r}, before any stop request (first cause at {:?}), but was never handled", m.c, m.i, m.msg, m.pending.unwrap_or(0), cause), vec![m.b, r]);
                            }
                        }
                        _ => {}
                    }
                }
            }
        }
        // R2: submissions begun after an accepted stop request returned are never handled; calls err
        if let Some(acc) = af.first_accept_r() {
            for m in &subs {
                if m.b > acc {
                    rep.premise("C04.R2.after_stop_unhandled");
                    nontrivial = true;
                    if let Some(v) = ix.inv_of.get(&m.msg).filter(|_| m.msg != 0) {
                        rep.fail(P, "R2", format!("handled_after_stop={:?}", m.path), format!("msg {} submitted at #{} after an accepted stop request returned at #{acc} was handled at #{}", m.msg, m.b, ix.invs[v[0]].i), vec![acc, m.b, ix.invs[v[0]].i]);
                    }
                    if matches!(m.op, OpK::Call | OpK::Ping) && matches!(m.res, Some(Res::Ok | Res::Reply { .. })) {
                        rep.fail(P, "R2", "call_ok_after_stop", format!("{:?} c{}#{} begun after an accepted stop returned Ok", m.op, m.c, m.i), vec![acc, m.b]);
                    }
                } else if af.first_stop_b().map(|b| m.e.map(|e| e > b).unwrap_or(true)).unwrap_or(false) {
                    // R6: concurrent with the stop: unconstrained, counted
                    if m.msg != 0 && ix.inv_of.contains_key(&m.msg) {
                        rep.count("C04.R6.concurrent_handled", 1);
                    } else {
                        rep.count("C04.R6.concurrent_unhandled", 1);
                    }
                    nontrivial = true;
                }
            }
            // R3: accepted stop, no failure => graceful termination by the end of the scenario
            if clean {
                rep.premise("C04.R3.stop_terminates");
                match (af.task_end, af.t_final()) {
                    (Some((_, _, "done")), Some((_, Some(_)))) => {}
                    (end, t) => rep.fail(P, "R3", "no_graceful_end_after_stop", format!("actor tag {} accepted a stop at #{acc} but did not terminate gracefully (task_end={end:?}, stopped={t:?})", af.tag), vec![acc]),
                }
            }
        }
        // R4/R5: awaiters resolve after stopped() finished, Ok iff graceful
        let graceful = !af.failed() && matches!(af.task_end, Some((_, _, "done"))) && matches!(af.t_final(), Some((_, Some(_))));
        let t_out = af.t_final().and_then(|t| t.1);
        for o in ix.ops.iter().filter(|o| o.tag == af.tag && o.executed()) {
            let Some(r) = o.e else { continue };
            match (&o.op, &o.res) {
                (OpK::Await | OpK::AwaitRef | OpK::Halt, Some(res)) => {
                    let ok = matches!(res, Res::Ok);
                    let stop_failed = o.op == OpK::Halt && matches!(res, Res::Err(e) if *e == "send" || *e == "already_stopped");
                    if stop_failed {
                        // halt whose stop() failed: the actor is already gone/terminating; the error is the stop's
                        continue;
                    }
                    if af.task_end.is_none() && !cx.mt {
                        rep.fail(P, "R4", format!("resolved_while_running={:?}", o.op), format!("{:?} c{}#{} resolved at #{r} although the actor task has not ended", o.op, o.c, o.i), vec![o.b, r]);
                        continue;
                    }
                    rep.premise("C04.R4.await_after_stopped");
                    if ok {
                        match t_out {
                            Some(t) if t < r => {}
                            _ => rep.fail(P, "R4", format!("early={:?}", o.op), format!("{:?} c{}#{} returned Ok at #{r} before stopped() finished ({t_out:?})", o.op, o.c, o.i), vec![o.b, r]),
                        }
                    }
                    rep.premise("C04.R5.await_result");
                    let shape = if o.b > af.task_end.map(|e| e.0).unwrap_or(u64::MAX) { "created_after" } else { "created_before" };
                    rep.count(&format!("awaiter.{:?}.{shape}.{}", o.op, if ok { "ok" } else { "err" }), 1);
                    if ok != graceful {
                        rep.fail(P, "R5", format!("await_result;op={:?};ok={ok};graceful={graceful}", o.op), format!("{:?} c{}#{} returned {res:?} but graceful={graceful}", o.op, o.c, o.i), vec![o.b, r]);
                    }
                }
                (OpK::Join | OpK::Consume, Some(Res::Joined(Some(_)))) => {
                    rep.premise("C04.R4.join_after_stopped");
                    match t_out {
                        Some(t) if t < r => {}
                        _ => rep.fail(P, "R4", format!("early={:?}", o.op), format!("{:?} c{}#{} returned the actor at #{r} before stopped() finished ({t_out:?})", o.op, o.c, o.i), vec![o.b, r]),
                    }
                    if !graceful {
                        rep.fail(P, "R5", "join_some_on_failed_actor", format!("{:?} c{}#{} returned Some for an actor that did not end gracefully", o.op, o.c, o.i), vec![o.b, r]);
                    }
                }
                _ => {}
            }
        }
    }
    // awaiting client panicked inside hannibal (e.g. Shared polled after completion)
    for (s, n) in &ix.notes {
        if n.contains("panicked") && !n.contains("injected") {
            // find the pending op of that client task
            let task: Option<u32> = n.split_whitespace().nth(1).and_then(|t| t.parse().ok());
            let pending = ix.ops.iter().filter(|o| o.e.is_none() && ix.ev[o.b as usize].task == task.unwrap_or(u32::MAX)).last();
            if let Some(o) = pending {
                if matches!(o.op, OpK::Await | OpK::AwaitRef | OpK::Halt) {
                    let shape = awaiter_shape(ix, o);
                    if shape == "same_handle_after_by_ref" {
                        // polling the very same future again after it completed is outside the Future contract
                        rep.count("C04.skipped.same_handle_polled_after_completion", 1);
                        continue;
                    }
                    rep.premise("C04.R5.await_result");
                    rep.fail(P, "R5", format!("await_panicked;shape={shape}"), format!("{:?} c{}#{} panicked instead of resolving: {n}", o.op, o.c, o.i), vec![o.b, *s]);
                }
            }
        }
    }
    super::stop_starvation("C04", cx, rep);
    // R1 (cont.): "its call returns Ok": a call that was handled to completion before the actor stopped is answered,
    // however closely the stop follows it
    for (j, s) in super::handled_call_without_reply(cx) {
        let o = &ix.ops[j];
        rep.fail(P, "R1", format!("handled_call_got={}", match &o.res { Some(Res::Err(e)) => e, _ => "other" }), format!("call c{}#{} (msg {}) was handled to completion (handler exit at #{s}) but the caller got {:?}", o.c, o.i, o.msg, o.res), vec![o.b, s]);
    }
    // R3 (cont.): after an accepted stop the actor is on its way out: never idle and alive at a quiescent point
    rep.premise_n("C04.R3.not_idle_after_accepted_stop", fx.values().filter(|a| a.first_accept_r().is_some()).count() as u64);
    for (tag, acc, q) in super::idle_after_accepted_stop(cx) {
        rep.fail(P, "R3", "idle_alive_after_accepted_stop", format!("actor tag {tag} accepted a stop request (returned at #{acc}) but is idle and alive at the quiescent point #{q}"), vec![acc, q]);
    }
    rep.nontrivial = nontrivial;
}

/// how the awaited handle was obtained: "clone_of_completed_by_ref_awaiter", "same_handle_after_by_ref", or "other"
fn awaiter_shape(ix: &crate::index::Index, o: &crate::index::OpRec) -> &'static str {
    // clients whose slot table this client inherited (forks keep slot indices)
    let mut line = vec![o.c];
    loop {
        let cur = line[line.len() - 1];
        match ix.ops.iter().find(|p| p.op == OpK::Fork && p.arg == cur as u64) {
            Some(f) => line.push(f.c),
            None => break,
        }
    }
    // completed by-ref awaits of this client (or its fork ancestors) before o
    let done_ref: Vec<u16> = ix.ops.iter().filter(|p| line.contains(&p.c) && p.op == OpK::AwaitRef && p.e.map(|e| e < o.b).unwrap_or(false)).map(|p| p.slot).collect();
    if done_ref.contains(&o.slot) {
        return "same_handle_after_by_ref";
    }
    // was o.slot produced by a Clone of a slot in done_ref, made after that by-ref await completed?
    for p in ix.ops.iter().filter(|p| line.contains(&p.c) && p.op == OpK::Clone && p.b < o.b) {
        if let Some(Res::Handle { slot, some: true }) = &p.res {
            if *slot == o.slot && done_ref.contains(&p.slot) {
                let completed_before_clone = ix.ops.iter().any(|q| line.contains(&q.c) && q.op == OpK::AwaitRef && q.slot == p.slot && q.e.map(|e| e < p.b).unwrap_or(false));
                if completed_before_clone {
                    return "clone_of_completed_by_ref_awaiter";
                }
            }
        }
    }
    "other"
}
