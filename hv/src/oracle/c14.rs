//! C14 stopped()/running() tell the truth without anyone awaiting the actor.
use super::facts::facts;
use super::{Cx, Report};
use crate::log::*;

const P: &str = "C14";

pub fn check(cx: &Cx, rep: &mut Report) {
    let ix = cx.ix;
    let fx = facts(cx);
    let mut nontrivial = false;
    // who awaited what, for the signature
    for af in fx.values() {
        if ix.task_of(af.tag) != Some(af.task) {
            continue;
        }
        // earliest stamp at which the termination may have begun
        // (a graceful termination is not over before the `stopped()` hook has returned: until then every handle
        // still says "running"; an unfinished hook falls back to the task end below)
        let mut term_begin: Option<u64> = af.t_final().filter(|_| af.task_end.is_some()).and_then(|t| t.1);
        for e in ix.ev {
            if let K::Fault { .. } = &e.k {
                if e.task == af.task {
                    term_begin = Some(term_begin.map(|t| t.min(e.stamp)).unwrap_or(e.stamp));
                }
            }
        }
        if let Some((s, _, _)) = af.task_end {
            term_begin = Some(term_begin.map(|t| t.min(s)).unwrap_or(s));
        }
        // a fail_on_timeout abandonment also begins a termination
        if af.timeout_failed {
            if let Some(s) = ix.actors[&af.task].timeline.iter().filter_map(|t| if let crate::index::TL::Inv(j) = t { ix.invs[*j].abandoned.map(|a| a.0) } else { None }).min() {
                term_begin = Some(term_begin.map(|t| t.min(s)).unwrap_or(s));
            }
        }
        let awaited_before = ix.ops.iter().any(|o| o.tag == af.tag && matches!(o.op, OpK::Await | OpK::AwaitRef | OpK::Halt) && af.task_end.map(|e| o.b < e.0).unwrap_or(true) && o.executed());
        let awaited_after = ix.ops.iter().any(|o| o.tag == af.tag && matches!(o.op, OpK::Await | OpK::AwaitRef | OpK::Halt) && af.task_end.map(|e| o.b > e.0).unwrap_or(false) && o.executed());
        let cause = if af.faulted { "fault" } else if af.timeout_failed { "timeout" } else if af.stops.iter().any(|s| s.accepted) { "stop" } else if af.stream_end.is_some() { "stream_end" } else { "drop" };
        for q in ix.ops.iter().filter(|o| o.tag == af.tag && matches!(o.op, OpK::QueryStopped | OpK::QueryRunning) && o.executed()) {
            let Some(Res::Bool(v)) = q.res else { continue };
            let says_stopped = if q.op == OpK::QueryStopped { v } else { !v };
            let Some(e) = q.e else { continue };
            if term_begin.map(|t| e < t).unwrap_or(true) {
                // R1: before termination begins: not stopped
                rep.premise("C14.R1.running_before_termination");
                if says_stopped {
                    rep.fail(P, "R1", format!("stopped_too_early;hk={:?}", q.hk), format!("{:?} on a {:?} of tag {} said stopped at #{e} but the termination began at {term_begin:?}", q.op, q.hk, af.tag), vec![q.b]);
                }
            } else if let Some((end, _, _)) = af.task_end {
                if q.b > end {
                    // R2: after the actor task ended: stopped, on every handle, whatever the await history
                    let self_awaited = ix.ops.iter().any(|o| o.c == q.c && o.slot == q.slot && o.op == OpK::AwaitRef && o.e.map(|x| x < q.b).unwrap_or(false));
                    let hist = match (awaited_before, awaited_after, self_awaited) {
                        (_, _, true) => "self_awaited",
                        (false, false, _) => "never_awaited",
                        (true, _, _) => "clone_awaited_before",
                        (false, true, _) => "clone_awaited_after",
                    };
                    rep.premise("C14.R2.stopped_after_termination");
                    rep.count(&format!("C14.R2.{hist}.{cause}.{:?}", q.hk), 1);
                    nontrivial = true;
                    if !says_stopped {
                        rep.fail(P, "R2", format!("not_stopped_after_end;history={hist};hk={:?}", q.hk), format!("{:?} on a {:?} of tag {} at #{} says the actor is still running although its task ended ({cause}) at #{end}; await history: {hist}", q.op, q.hk, af.tag, q.b), vec![end, q.b]);
                    }
                }
            }
        }
    }
    // a liveness query never panics (it would if it polled a spent shared future)
    for o in ix.ops.iter().filter(|o| matches!(o.op, OpK::QueryStopped | OpK::QueryRunning) && o.e.is_none()) {
        let ctask = ix.ev[o.b as usize].task;
        if matches!(ix.task_end.get(&ctask), Some((_, _, "panicked"))) {
            rep.premise("C14.R2.stopped_after_termination");
            let self_awaited = ix.ops.iter().any(|p| p.c == o.c && p.slot == o.slot && p.op == OpK::AwaitRef && p.e.map(|x| x < o.b).unwrap_or(false));
            rep.fail(P, "R2", format!("query_panicked;hk={:?};self_awaited={self_awaited}", o.hk), format!("{:?} c{}#{} on a {:?} of tag {} panicked instead of answering", o.op, o.c, o.i, o.hk, o.tag), vec![o.b]);
        }
    }
    // R3: dependants react to a termination nobody awaited (service tags: several instances per tag)
    for k in [1u32, 2] {
        let tag = 9000 + k;
        let mut tasks: Vec<u32> = ix.tasks_of_tag.get(&tag).cloned().unwrap_or_default();
        for d in cx.prog.actors.iter().filter(|d| d.k as u32 == k) {
            tasks.extend(ix.tasks_of_tag.get(&d.tag).cloned().unwrap_or_default());
        }
        // instance end stamps
        let ends: Vec<(u32, u64)> = tasks.iter().filter_map(|t| ix.task_end.get(t).map(|e| (*t, e.0))).collect();
        for o in ix.ops.iter().filter(|o| o.tag == tag && o.executed()) {
            match (&o.op, &o.res) {
                (OpK::FromRegistry, Some(Res::Handle { slot, some: true })) => {
                    // identity probe: the next Call of that client on the returned slot
                    let Some(call) = ix.ops.iter().find(|p| p.c == o.c && p.i > o.i && p.op == OpK::Call && p.slot == *slot) else { continue };
                    if call.i != o.i + 1 {
                        continue;
                    }
                    // instances that had ended before the lookup began and none was alive-registered...
                    // rule: if the call fails, the returned instance must have died *after* the lookup returned
                    rep.premise("C14.R3.from_registry_returns_live_instance");
                    if let Some(Res::Err(_)) = &call.res {
                        let r = o.e.unwrap_or(0);
                        // did any instance end between lookup return and the call's end? then the failure is legitimate
                        let died_meanwhile = ends.iter().any(|(_, s)| *s > r && call.e.map(|e| *s < e).unwrap_or(true));
                        let any_dead_before = ends.iter().any(|(_, s)| *s < o.b);
                        // (a failed call is no proof of death: see try_from_registry below)
                        let call_end = call.e.unwrap_or(u64::MAX);
                        let type_tags: Vec<u32> = std::iter::once(tag).chain(cx.prog.actors.iter().filter(|d| d.k as u32 == k).map(|d| d.tag)).collect();
                        let winding_down = tasks.iter().any(|t| {
                            let born = ix.task_kind.get(t).map(|x| x.2).or_else(|| ix.cbs.iter().filter(|c| c.actor == *t && c.cb == crate::log::Cb::Started).map(|c| c.i).min());
                            let alive_at_lookup = born.map(|b| b < call.b).unwrap_or(false) && !ends.iter().any(|(et, s)| et == t && *s < o.b);
                            let stop_requested = ix.ev.iter().any(|e| e.stamp < call_end && matches!(&e.k, K::Effect { actor, what, ok: true, .. } if actor == t && (*what == "ctx_stop" || *what == "reap_stop")))
                                || ix.ops.iter().any(|p| type_tags.contains(&p.tag) && matches!(p.op, OpK::Stop | OpK::Halt | OpK::Consume | OpK::ConsumeSync) && p.executed() && p.b < call_end);
                            alive_at_lookup && stop_requested
                        });
                        if !died_meanwhile && any_dead_before && !winding_down {
                            nontrivial = true;
                            rep.fail(P, "R3", "from_registry_returned_dead_instance", format!("from_registry c{}#{} (begun #{}, after an instance had terminated un-awaited) returned an address whose immediate call failed with {:?}", o.c, o.i, o.b, call.res), vec![o.b, call.b]);
                        }
                    } else if ends.iter().any(|(_, s)| *s < o.b) {
                        nontrivial = true;
                        rep.premise("C14.R3.respawn_after_unawaited_termination");
                    }
                }
                (OpK::TryFromRegistry, Some(Res::Handle { slot, some: true })) => {
                    let Some(call) = ix.ops.iter().find(|p| p.c == o.c && p.i == o.i + 1 && p.op == OpK::Call && p.slot == *slot) else { continue };
                    rep.premise("C14.R3.try_from_registry_never_dead");
                    if let Some(Res::Err(_)) = &call.res {
                        let r = o.e.unwrap_or(0);
                        let died_meanwhile = ends.iter().any(|(_, s)| *s > o.b && call.e.map(|e| *s < e).unwrap_or(true));
                        let _ = r;
                        // a failed call is no proof of death: an instance that has accepted a stop request and is still
                        // winding down (running, so rightly handed out) need not handle what is submitted after that
                        // request - whether the library queues and discards it or refuses it at once
                        let call_end = call.e.unwrap_or(u64::MAX);
                        let type_tags: Vec<u32> = std::iter::once(tag).chain(cx.prog.actors.iter().filter(|d| d.k as u32 == k).map(|d| d.tag)).collect();
                        let winding_down = tasks.iter().any(|t| {
                            let born = ix.task_kind.get(t).map(|x| x.2).or_else(|| ix.cbs.iter().filter(|c| c.actor == *t && c.cb == crate::log::Cb::Started).map(|c| c.i).min());
                            let alive_at_lookup = born.map(|b| b < call.b).unwrap_or(false) && !ends.iter().any(|(et, s)| et == t && *s < o.b);
                            let stop_requested = ix.ev.iter().any(|e| e.stamp < call_end && matches!(&e.k, K::Effect { actor, what, ok: true, .. } if actor == t && (*what == "ctx_stop" || *what == "reap_stop")))
                                || ix.ops.iter().any(|p| type_tags.contains(&p.tag) && matches!(p.op, OpK::Stop | OpK::Halt | OpK::Consume | OpK::ConsumeSync) && p.executed() && p.b < call_end);
                            alive_at_lookup && stop_requested
                        });
                        if !died_meanwhile && !winding_down {
                            rep.fail(P, "R3", "try_from_registry_returned_dead_instance", format!("try_from_registry c{}#{} returned an address whose immediate call failed with {:?}", o.c, o.i, call.res), vec![o.b, call.b]);
                        }
                    }
                }
                _ => {}
            }
        }
    }
    // register-if-stopped: a register of a fresh instance begun after the registered instance's task ended,
    // with no registry operation in between, must succeed
    for o in ix.ops.iter().filter(|o| o.op == OpK::Register && o.executed()) {
        let k = o.arg as u32;
        if k == 0 {
            continue;
        }
        // which instance was registered before? the last from_registry/register/replace of type k that completed before o
        let prev = ix.ops.iter().filter(|p| p.e.map(|e| e < o.b).unwrap_or(false) && p.arg == k as u64 && matches!(p.op, OpK::FromRegistry | OpK::Setup | OpK::Register | OpK::Replace | OpK::Unregister) && p.executed()).last();
        let concurrent = ix.ops.iter().any(|p| !std::ptr::eq(p, o) && p.arg == k as u64 && matches!(p.op, OpK::FromRegistry | OpK::Setup | OpK::Register | OpK::Replace | OpK::Unregister) && p.b < o.e.unwrap_or(u64::MAX) && p.e.unwrap_or(u64::MAX) > o.b);
        if concurrent {
            continue;
        }
        let Some(prev) = prev else { continue };
        if !matches!(prev.op, OpK::FromRegistry | OpK::Setup) {
            continue;
        }
        // all default-spawned instances of that type must have ended before o began
        let tag = 9000 + k;
        let mut tasks: Vec<u32> = ix.tasks_of_tag.get(&tag).cloned().unwrap_or_default();
        for d in cx.prog.actors.iter().filter(|d| d.k as u32 == k) {
            tasks.extend(ix.tasks_of_tag.get(&d.tag).cloned().unwrap_or_default());
        }
        // the instance being registered is alive, of course: leave it out
        let own_obj = ix.ops.iter().filter(|p| p.c == o.c && p.op == OpK::SpawnActor && p.b < o.b).filter_map(|p| if let Some(Res::Inst { obj, slot, .. }) = &p.res { if *slot == o.slot { Some(*obj) } else { None } } else { None }).last();
        let own_task = own_obj.and_then(|ob| ix.cbs.iter().find(|c| c.obj == ob).map(|c| c.actor));
        tasks.retain(|t| Some(*t) != own_task);
        let all_dead = !tasks.is_empty() && tasks.iter().all(|t| ix.task_end.get(t).map(|e| e.0 < o.b).unwrap_or(false));
        if all_dead {
            rep.premise("C14.R3.register_after_unawaited_termination");
            nontrivial = true;
            if !matches!(o.res, Some(Res::Prev { ok: true, .. })) {
                rep.fail(P, "R3", "register_refused_although_stopped", format!("register c{}#{} of a fresh instance was refused ({:?}) although the registered instance's task had ended", o.c, o.i, o.res), vec![o.b]);
            }
        }
    }
    // ... and *everything* the registry answers afterwards must be consistent with the terminations that really
    // happened (a respawn that leaves the dead entry behind, a fast path that mistakes "registered but stopped"
    // for "there"): that is the registry's linearizability against the model whose liveness is the truth (C08.R1),
    // adopted here for histories in which an instance terminated
    let any_service_ended = [1u32, 2].iter().any(|k| {
        let mut tasks: Vec<u32> = ix.tasks_of_tag.get(&(9000 + k)).cloned().unwrap_or_default();
        for d in cx.prog.actors.iter().filter(|d| d.k as u32 == *k) {
            tasks.extend(ix.tasks_of_tag.get(&d.tag).cloned().unwrap_or_default());
        }
        tasks.iter().any(|t| ix.task_end.contains_key(t))
    });
    if any_service_ended {
        let mut sub = Report::default();
        super::c08::check(cx, &mut sub);
        if sub.premises.get("C08.R1.history_linearizable").copied().unwrap_or(0) > 0 {
            rep.premise("C14.R3.registry_consistent_after_termination");
            nontrivial = true;
        }
        for v in sub.violations.into_iter().filter(|v| v.rule == "R1") {
            rep.fail(P, "R3", format!("c08:{}:{}", v.rule, v.sig), v.msg, v.at);
        }
    }
    rep.nontrivial = nontrivial;
}
