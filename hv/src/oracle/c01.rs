//! C01 Mailbox FIFO: non-overlap, at-most-once, real-time order => handling order, fold.
use std::collections::HashMap;

use super::{Cx, Report};
use crate::index::TL;
use crate::log::*;

const P: &str = "C01";

pub fn check(cx: &Cx, rep: &mut Report) {
    let ix = cx.ix;
    // R1: brackets of one actor never nest or overlap (handlers and callbacks), from raw order
    let mut open: HashMap<u32, (u64, String)> = HashMap::new();
    for e in ix.ev {
        match &e.k {
            K::HIn { actor, msg, mk, .. } => {
                rep.premise("C01.R1");
                if let Some((s, what)) = open.get(actor) {
                    rep.fail(P, "R1", format!("overlap=handler_in_{what}"), format!("handler of msg {msg} ({mk:?}) entered on actor task {actor} while {what} (#{s}) still open"), vec![*s, e.stamp]);
                }
                open.insert(*actor, (e.stamp, "handler".into()));
            }
            K::HOut { actor, .. } | K::HAbandon { actor, .. } => {
                open.remove(actor);
            }
            K::CbIn { actor, cb, .. } => {
                rep.premise("C01.R1");
                if let Some((s, what)) = open.get(actor) {
                    rep.fail(P, "R1", format!("overlap=callback_in_{what}"), format!("callback {cb:?} entered on actor task {actor} while {what} (#{s}) still open"), vec![*s, e.stamp]);
                }
                open.insert(*actor, (e.stamp, "callback".into()));
            }
            K::CbOut { actor, .. } => {
                open.remove(actor);
            }
            _ => {}
        }
    }
    // R2: at most one handler entry per message uid (Fire/Ask/Topic/Bcast/Item uids are unique per submission;
    // Topic/Bcast are unique per (publication, receiving actor))
    for (msg, invs) in &ix.inv_of {
        let mk = ix.invs[invs[0]].mk;
        match mk {
            Mk::Fire | Mk::Ask | Mk::Item => {
                rep.premise("C01.R2");
                if invs.len() > 1 {
                    rep.fail(P, "R2", format!("dup={mk:?}"), format!("message {msg} handled {} times", invs.len()), invs.iter().map(|j| ix.invs[*j].i).collect());
                }
            }
            Mk::Topic(_) | Mk::Bcast(_) => {
                let mut per: HashMap<u32, u32> = HashMap::new();
                for j in invs {
                    *per.entry(ix.invs[*j].actor).or_insert(0) += 1;
                }
                rep.premise("C01.R2");
                if per.values().any(|n| *n > 1) {
                    rep.fail(P, "R2", format!("dup={mk:?}"), format!("publication {msg} handled more than once by one actor"), invs.iter().map(|j| ix.invs[*j].i).collect());
                }
            }
            _ => {}
        }
    }
    // R3: for submissions m1, m2 to the same actor tag, m1 returned Ok (send) / returned (call, ping)
    // before m2 began  =>  if m2 was handled then m1 was handled, earlier.
    // Pings have no handler event; they take part through their completion only (a returned Ok ping
    // was handled, but we cannot see when) so they are skipped as m1/m2 here.
    let subs: Vec<usize> = ix
        .ops
        .iter()
        .enumerate()
        .filter(|(_, o)| matches!(o.op, OpK::Send | OpK::Call | OpK::ForceSend) && o.executed() && o.msg != 0)
        .map(|(j, _)| j)
        .collect();
    let mut clients = std::collections::BTreeSet::new();
    let mut paths = std::collections::BTreeSet::new();
    for &a in &subs {
        let m1 = &ix.ops[a];
        clients.insert(m1.c);
        paths.insert(m1.path);
        // m1 "completed": send returned Ok, or call returned at all (Ok or Err)
        let Some(r1) = m1.e else { continue };
        let completed = match (&m1.op, &m1.res) {
            (OpK::Send | OpK::ForceSend, Some(Res::Ok)) => true,
            (OpK::Call, Some(Res::Reply { .. })) => true,
            // a call that returned Err was either never accepted or dropped unhandled; either way it
            // gives no ordering obligation ("without m1" is then legitimate)
            _ => false,
        };
        if !completed {
            continue;
        }
        for &b in &subs {
            let m2 = &ix.ops[b];
            if a == b || m1.tag != m2.tag || m2.b <= r1 {
                continue;
            }
            let Some(e2) = ix.inv_of.get(&m2.msg).and_then(|v| v.first()) else { continue };
            let key: &'static str = match (m1.c == m2.c, m1.path, m2.path) {
                (true, Path::Waiting, Path::Waiting) => "C01.R3.same_client.wait_wait",
                (true, Path::Waiting, Path::Forcing) => "C01.R3.same_client.wait_force",
                (true, Path::Forcing, Path::Waiting) => "C01.R3.same_client.force_wait",
                (true, Path::Forcing, Path::Forcing) => "C01.R3.same_client.force_force",
                (false, Path::Waiting, Path::Waiting) => "C01.R3.cross_client.wait_wait",
                (false, Path::Waiting, Path::Forcing) => "C01.R3.cross_client.wait_force",
                (false, Path::Forcing, Path::Waiting) => "C01.R3.cross_client.force_wait",
                (false, Path::Forcing, Path::Forcing) => "C01.R3.cross_client.force_force",
                _ => "C01.R3.other",
            };
            rep.premise(key);
            rep.count(&format!("hk_pair.{:?}->{:?}", m1.hk, m2.hk), 1);
            let e2s = ix.invs[*e2].i;
            let unique = ix.task_of(m1.tag).is_some();
            // an invocation that was dropped half-way although nothing entitles the library to abandon it (no handler
            // timeout applies, no fault was injected, the client did not cancel a call) is not "handled"
            let no_abandon_cause = !ix.has_fault()
                && cx.prog.cancel.is_none()
                && cx.prog.actors.iter().chain(cx.prog.defaults.iter()).find(|d| d.tag == m1.tag).map(|d| d.timeout.is_none() || d.entry.stream()).unwrap_or(false)
                && !cx.tr.inconclusive();
            let h1 = ix.inv_of.get(&m1.msg).and_then(|v| v.first()).filter(|j| !(no_abandon_cause && ix.invs[**j].abandoned.map(|a| ix.phase("end").map(|e| a.0 < e).unwrap_or(true)).unwrap_or(false)));
            match h1 {
                None if !unique => {}
                Some(e1) if !unique && ix.invs[*e1].actor != ix.invs[*e2].actor => {}
                None => {
                    // the same actor incarnation chain? a restart does not drop messages, so m1 must be handled
                    rep.fail(P, "R3", format!("order=missing;p1={:?};p2={:?}", m1.path, m2.path), format!("msg {} (op c{}#{} {:?} via {:?}, completed at #{r1}) was never handled although msg {} (begun later at #{}) was handled at #{e2s}", m1.msg, m1.c, m1.i, m1.op, m1.hk, m2.msg, m2.b), vec![m1.b, r1, m2.b, e2s]);
                }
                Some(e1) => {
                    let e1s = ix.invs[*e1].i;
                    if e1s > e2s {
                        rep.fail(P, "R3", format!("order=inverted;p1={:?};p2={:?}", m1.path, m2.path), format!("msg {} (completed #{r1}) handled at #{e1s} after msg {} (begun #{}) handled at #{e2s}", m1.msg, m2.msg, m2.b), vec![m1.b, r1, m2.b, e2s, e1s]);
                    }
                }
            }
        }
    }
    // R3 (pings): a ping has no handler event, but one that returned Ok has been through the mailbox: every message
    // whose submission had completed before the ping began was handled before the ping returned
    for p in ix.ops.iter().filter(|o| o.op == OpK::Ping && matches!(o.res, Some(Res::Ok))) {
        let Some(pe) = p.e else { continue };
        if ix.task_of(p.tag).is_none() {
            continue;
        }
        for &a in &subs {
            let m1 = &ix.ops[a];
            if m1.tag != p.tag {
                continue;
            }
            let Some(r1) = m1.e else { continue };
            let completed = matches!((&m1.op, &m1.res), (OpK::Send | OpK::ForceSend, Some(Res::Ok)) | (OpK::Call, Some(Res::Reply { .. })));
            if !completed || r1 >= p.b {
                continue;
            }
            rep.premise("C01.R3.ping_is_a_barrier");
            match ix.inv_of.get(&m1.msg).and_then(|v| v.first()) {
                Some(e1) if ix.invs[*e1].i < pe => {}
                other => {
                    let at = other.map(|e| ix.invs[*e].i);
                    rep.fail(P, "R3", format!("ping_overtook;p1={:?}", m1.path), format!("ping c{}#{} (begun #{}, returned Ok at #{pe}) overtook msg {} (op c{}#{} {:?} via {:?}, completed at #{r1}), which was handled at {at:?}", p.c, p.i, p.b, m1.msg, m1.c, m1.i, m1.op, m1.hk), vec![m1.b, r1, p.b, pe]);
                }
            }
        }
    }
    // R4: every completed invocation's (seq, fold) is the fold of the completed prefix of its object,
    // replies carry exactly that, and join returns the full handled sequence.
    let mut state: HashMap<Uid, (u64, u64, Vec<Uid>)> = HashMap::new(); // obj -> (seq, fold, handled)
    for a in ix.actors.values() {
        for t in &a.timeline {
            if let TL::Inv(j) = t {
                let inv = &ix.invs[*j];
                if let Some((s, _, seq, fold)) = inv.out {
                    let st = state.entry(inv.obj).or_insert((0, 0, vec![]));
                    st.0 += 1;
                    st.1 = mix(st.1, inv.msg);
                    st.2.push(inv.msg);
                    rep.premise("C01.R4.fold");
                    if (st.0, st.1) != (seq, fold) {
                        rep.fail(P, "R4", "fold=handler_state", format!("state after msg {} on obj {} is (seq {seq}, fold {fold:x}) but the fold of the handled prefix is (seq {}, fold {:x})", inv.msg, inv.obj, st.0, st.1), vec![s]);
                        st.0 = seq;
                        st.1 = fold;
                    }
                }
            }
        }
    }
    for o in &ix.ops {
        match &o.res {
            Some(Res::Reply { msg, obj, seq, fold, actor }) if o.op == OpK::Call => {
                rep.premise("C01.R4.reply");
                let inv = ix.inv_of.get(msg).and_then(|v| v.first()).map(|j| &ix.invs[*j]);
                let okv = inv.and_then(|i| i.out).map(|(_, _, s, f)| (s, f)) == Some((*seq, *fold))
                    && inv.map(|i| (i.obj, i.actor)) == Some((*obj, *actor));
                if !okv {
                    rep.fail(P, "R4", "fold=reply", format!("reply to msg {} carries (obj {obj}, seq {seq}, fold {fold:x}) which is not the state its handler produced", o.msg), vec![o.b, o.e.unwrap_or(0)]);
                }
            }
            Some(Res::Joined(Some(v))) => {
                rep.premise("C01.R4.join");
                let exp = state.get(&v.obj).cloned().unwrap_or((0, 0, vec![]));
                if (exp.0, exp.1, &exp.2) != (v.seq, v.fold, &v.handled) {
                    rep.fail(P, "R4", "fold=join", format!("join returned obj {} with handled={:?} seq {} but the handler log says handled={:?} seq {}", v.obj, v.handled, v.seq, exp.2, exp.0), vec![o.b, o.e.unwrap_or(0)]);
                }
            }
            _ => {}
        }
    }
    // R5: burst traffic (checked by an in-actor monitor, no per-message log events): every client's sequence
    // numbers arrive in order, none lost, none duplicated
    for e in ix.ev {
        if let K::Effect { what, msg, arg, actor, .. } = &e.k {
            if *what == "burst_inversion" {
                rep.fail(P, "R5", "burst_order", format!("actor task {actor}: burst message #{} of client {} arrived when #{arg} was expected (program order of one client broken, or a message lost/duplicated)", msg & 0xffff_ffff, msg >> 32), vec![e.stamp]);
            }
        }
    }
    let fx = super::facts::facts(cx);
    for o in ix.ops.iter().filter(|o| o.op == OpK::Burst && o.executed()) {
        rep.premise("C01.R5.burst_in_order");
        clients.insert(o.c);
        if let Some(Res::Count(n)) = &o.res {
            rep.premise_n("C01.R5.burst_messages", *n);
        }
    }
    for af in fx.values() {
        if af.decl.is_none() || af.failed() {
            continue;
        }
        // counts logged by stopped(): compare with what the clients' bursts got accepted, when every burst had
        // completed before any termination cause
        let counts: Vec<(u64, u64)> = ix.ev.iter().filter_map(|e| if let K::Effect { what, msg, arg, actor, .. } = &e.k { if *what == "burst_count" && *actor == af.task { Some((*msg, *arg)) } else { None } } else { None }).collect();
        if counts.is_empty() {
            continue;
        }
        let cause = af.first_term_cause();
        for (client, handled) in counts {
            let bursts: Vec<&crate::index::OpRec> = ix.ops.iter().filter(|o| o.op == OpK::Burst && o.c as u64 == client && o.tag == af.tag).collect();
            let all_before = bursts.iter().all(|o| o.e.map(|e| cause.map(|c| e < c).unwrap_or(true)).unwrap_or(false));
            let sent: u64 = bursts.iter().map(|o| if let Some(Res::Count(n)) = &o.res { *n } else { 0 }).sum();
            if all_before {
                rep.premise("C01.R5.burst_count");
                if handled != sent {
                    rep.fail(P, "R5", if handled < sent { "burst_lost" } else { "burst_duplicated" }, format!("actor tag {}: client {client} had {sent} burst messages accepted before any termination cause, {handled} were handled", af.tag), vec![]);
                }
            }
        }
    }
    if ix.ops.iter().any(|o| o.op == OpK::Burst) && clients.len() >= 2 {
        paths.insert(Path::Waiting);
        paths.insert(Path::Forcing);
    }
    // non-trivial: >= 2 clients submitted, and both paths used
    rep.nontrivial = clients.len() >= 2 && paths.contains(&Path::Waiting) && paths.contains(&Path::Forcing);
}
