//! C10 timers respect period/delay, die with the actor, never prolong it (virtual clock).
use std::collections::BTreeMap;

use super::facts::facts;
use super::{Cx, Report};
use crate::index::TL;
use crate::log::*;
use crate::rt::UNIT_NS as UNIT;

const P: &str = "C10";

pub struct Timer {
    pub id: Uid,
    pub actor: u32,
    pub kind: &'static str,
    pub dur: u64,
    pub reg: u64,
    pub reg_vt: u64,
}

pub fn timers(cx: &Cx) -> Vec<Timer> {
    cx.ix
        .ev
        .iter()
        .filter_map(|e| match &e.k {
            K::TimerReg { id, actor, kind, dur, .. } => Some(Timer { id: *id, actor: *actor, kind, dur: *dur * UNIT, reg: e.stamp, reg_vt: e.vt }),
            _ => None,
        })
        .collect()
}

pub fn check(cx: &Cx, rep: &mut Report) {
    let ix = cx.ix;
    let fx = facts(cx);
    let tms = timers(cx);
    let mut nontrivial = false;
    let last_vt = ix.ev.last().map(|e| e.vt).unwrap_or(0);
    // exec events by id
    let mut execs: BTreeMap<Uid, Vec<(u64, u64)>> = BTreeMap::new();
    for e in ix.ev {
        if let K::Exec { id, .. } = &e.k {
            execs.entry(*id).or_default().push((e.stamp, e.vt));
        }
    }
    for t in &tms {
        let Some(af) = fx.get(&t.actor) else { continue };
        let end = af.task_end;
        // deliveries: handler entries of Tick(id) on that actor (or Exec events)
        let deliveries: Vec<(u64, u64)> = if t.kind == "delayed_exec" {
            execs.get(&t.id).cloned().unwrap_or_default()
        } else {
            ix.inv_of.get(&t.id).map(|v| v.iter().map(|j| (ix.invs[*j].i, ix.invs[*j].it)).collect()).unwrap_or_default()
        };
        let periodic = t.kind == "interval" || t.kind == "interval_with";
        // R1: lower bounds
        for (k, (s, vt)) in deliveries.iter().enumerate() {
            rep.premise("C10.R1.not_before_period");
            let earliest = t.reg_vt + (k as u64 + 1) * t.dur;
            if *vt < earliest {
                rep.fail(P, "R1", format!("early;kind={}", t.kind), format!("{} timer {} (registered at t={}, duration {}): delivery #{} at t={vt} is earlier than t={earliest}", t.kind, t.id, t.reg_vt, t.dur, k + 1), vec![t.reg, *s]);
            }
            if k > 0 {
                nontrivial = true;
            }
        }
        // R1b: interval_with on a mailbox bounded to n: the timer has one send in flight at a time and a send only
        // returns once the actor is at most n behind, so deliveries n+1 apart are at least one period apart
        // (for n = 0: consecutive deliveries)
        if t.kind == "interval_with" && !cx.mt {
            if let Some(n) = af.decl.and_then(|d| if d.entry.builder() { d.mailbox } else { None }) {
                for k in 0..deliveries.len().saturating_sub(n + 1) {
                    rep.premise("C10.R1.interval_with_spacing");
                    let (a, b) = (deliveries[k].1, deliveries[k + n + 1].1);
                    if b < a + t.dur {
                        rep.fail(P, "R1", format!("interval_with_bunched;n={n}"), format!("interval_with timer {} (period {}) on a mailbox bounded({n}): deliveries #{} and #{} at t={a} and t={b} are less than one period apart", t.id, t.dur, k + 1, k + n + 2), vec![deliveries[k].0, deliveries[k + n + 1].0]);
                        break;
                    }
                }
            }
        }
        // R2b: an `interval` timer never waits for the mailbox, so also on a busy actor every expiry before the
        // actor stops accepting is delivered: the number of deliveries is determined by the clock alone
        // (after restarts: a timer registered in the last incarnation - typically in its started() - is subject to
        // the same count; seeded defect C15r10 aborted exactly those)
        let in_last_inc = af.incs.len() == 1 || af.incs.last().map(|i| t.reg >= i.s_in).unwrap_or(false);
        if t.kind == "interval" && in_last_inc && !af.failed() && t.dur > 0 && af.stream_end.is_none() && af.decl.map(|d| !d.entry.stream()).unwrap_or(false) {
            // the instant from which nothing more is accepted: the first accepted stop request / last drop
            let close_stamp = af.stops.iter().filter(|s| s.accepted).map(|s| s.b).min().into_iter().chain(af.arc_gone_at).min();
            let terminated = af.t_final().is_some() && af.task_end.is_some();
            if let (Some(cs), true) = (close_stamp, terminated) {
                let close_vt = ix.ev[cs as usize].vt;
                let lo = (close_vt.saturating_sub(t.reg_vt + 1)) / t.dur; // expiries strictly before close
                // upper bound: library-internal transient strong handles (an interval_with send parked in flush) can
                // keep the mailbox open past the last drop, but never past the moment stopped() begins
                let t_in_vt = af.t_final().map(|x| ix.ev[x.0 as usize].vt).unwrap_or(close_vt).max(close_vt);
                let hi = t_in_vt.saturating_sub(t.reg_vt) / t.dur; // expiries at or before stopped() began
                // a stop accepted while earlier ticks are still queued does not lose them (drain barrier)
                rep.premise("C10.R2.interval_count_on_busy_actor");
                if af.incs.len() > 1 {
                    rep.premise("C10.R2.interval_count_after_restart");
                }
                let got = deliveries.len() as u64;
                if t.reg_vt <= close_vt && (got < lo || got > hi + 1) {
                    rep.fail(P, "R2", "interval_count", format!("interval timer {} registered at t={} with period {} on actor tag {} that stopped accepting at t={close_vt}: {got} deliveries, expected between {lo} and {}", t.id, t.reg_vt, t.dur, af.tag, hi + 1), vec![t.reg, cs]);
                }
            }
        }
        // R3: delayed timers fire at most once
        if !periodic {
            rep.premise("C10.R3.delayed_at_most_once");
            if deliveries.len() > 1 {
                rep.fail(P, "R3", format!("delayed_fired_twice;kind={}", t.kind), format!("{} timer {} fired {} times", t.kind, t.id, deliveries.len()), deliveries.iter().map(|d| d.0).collect());
            }
        }
        // R4: nothing after the actor's task ended
        if let Some((end_s, _, _)) = end {
            rep.premise("C10.R4.nothing_after_end");
            for (s, vt) in &deliveries {
                if *s > end_s {
                    rep.fail(P, "R4", format!("fired_after_end;kind={}", t.kind), format!("{} timer {} fired at #{s} (t={vt}) after its actor's task ended at #{end_s}", t.kind, t.id), vec![end_s, *s]);
                }
            }
            if deliveries.iter().all(|d| d.0 < end_s) && periodic {
                nontrivial = true;
            }
            if !cx.mt {
                if let Some(f) = ix.ev.iter().find(|e| e.stamp > end_s && matches!(&e.k, K::TimerFire { id } if *id == t.id)) {
                    rep.fail(P, "R4", format!("fired_after_end;kind={}", t.kind), format!("{} timer {} produced its message at #{} after its actor's task ended at #{end_s}", t.kind, t.id, f.stamp), vec![end_s, f.stamp]);
                }
            }
        }
        // R2: exact schedule on an otherwise idle, fault-free actor, for timers registered in its last (or only) incarnation
        let idle = in_last_inc
            && !af.failed()
            && ix.actors[&t.actor].timeline.iter().all(|x| match x {
                TL::Inv(j) => ix.invs[*j].out.map(|o| o.1 == ix.invs[*j].it).unwrap_or(false),
                TL::Cb(j) => ix.cbs[*j].o.map(|o| o.1 == ix.cbs[*j].it).unwrap_or(false),
            });
        // (a parked send future keeps the mailbox open after the last handle proper is gone, but timers cannot be
        // upgraded through it: "alive" and "reachable by its timers" then differ, and the exact schedule is not defined)
        if idle && !af.parked {
            // the actor is alive (accepting) strictly before t_end
            let t_end = af.t_final().map(|t| ix.ev[t.0 as usize].vt).unwrap_or(last_vt);
            rep.premise("C10.R2.exact_schedule");
            if af.incs.len() > 1 {
                rep.premise("C10.R2.exact_schedule_after_restart");
            }
            let mut expect = vec![];
            let mut k = 1u64;
            if t.dur == 0 && periodic {
                continue; // zero period: unbounded number of deliveries per instant, not generated
            }
            loop {
                let at = t.reg_vt + k * t.dur;
                if at >= t_end {
                    break;
                }
                expect.push(at);
                if !periodic {
                    break;
                }
                k += 1;
            }
            let got: Vec<u64> = deliveries.iter().map(|d| d.1).filter(|vt| *vt < t_end).collect();
            if got != expect {
                rep.fail(P, "R2", format!("schedule;kind={}", t.kind), format!("{} timer {} registered at t={} with duration {} on an idle actor alive until t={t_end}: deliveries at {:?}, expected exactly {:?}", t.kind, t.id, t.reg_vt, t.dur, got, expect), vec![t.reg]);
            }
            // deliveries at exactly t_end are a tie; after t_end nothing
            if deliveries.iter().any(|d| d.1 > t_end) && t.kind != "delayed_exec" {
                rep.fail(P, "R2", format!("after_end_time;kind={}", t.kind), format!("{} timer {} delivered after its actor began stopping at t={t_end}", t.kind, t.id), vec![t.reg]);
            }
            rep.count(&format!("C10.R2.deliveries_checked.{}", t.kind), got.len() as u64);
        }
    }
    // R5: an actor whose only remaining references are its own timers terminates (reference model)
    for af in fx.values() {
        if af.has_timers && af.decl.is_some() && !af.is_child && !af.failed() {
            if let Some(z) = af.zero_at {
                if ix.phase("reap").map(|r| z < r).unwrap_or(true) && !af.stops.iter().any(|s| s.accepted) && af.stream_end.is_none() {
                    rep.premise("C10.R5.timers_do_not_prolong");
                    if !matches!(af.task_end, Some((_, _, "done"))) {
                        rep.fail(P, "R5", "kept_alive_by_timers", format!("actor tag {} has live timers, its last strong handle was dropped at #{z}, and it is still alive at the end", af.tag), vec![z]);
                    }
                }
            }
        }
    }
    // R6: census: timer tasks of an ended actor have ended by the end of the scenario
    for (task, (kind, parent, s)) in &ix.task_kind {
        if *kind != "aux" {
            continue;
        }
        let Some(af) = fx.get(parent) else { continue };
        if let Some((end_s, _, _)) = af.task_end {
            rep.premise("C10.R6.timer_tasks_end");
            if !ix.task_end.contains_key(task) {
                rep.fail(P, "R6", "timer_task_leaked", format!("timer task {task} spawned at #{s} by actor task {parent} (tag {}) is still alive at the end although the actor task ended at #{end_s}", af.tag), vec![*s, end_s]);
            }
        }
    }
    rep.nontrivial = nontrivial;
}
