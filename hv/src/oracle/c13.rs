//! C13 stream-attached actors handle every item in order and end with the stream.
use super::facts::facts;
use super::{Cx, Report};
use crate::index::TL;
use crate::log::*;

const P: &str = "C13";

pub fn check(cx: &Cx, rep: &mut Report) {
    let ix = cx.ix;
    let fx = facts(cx);
    let mut nontrivial = false;
    for af in fx.values() {
        let Some(decl) = af.decl else { continue };
        if !decl.entry.stream() {
            continue;
        }
        let spec = decl.stream.as_ref();
        // items yielded to this actor's loop (StreamYield is logged inside the actor task's poll)
        let yielded: Vec<(u64, Uid)> = ix.ev.iter().filter(|e| e.task == af.task).filter_map(|e| if let K::StreamYield { item, .. } = &e.k { Some((e.stamp, *item)) } else { None }).collect();
        let invs: Vec<&crate::index::Inv> = ix.actors[&af.task].timeline.iter().filter_map(|t| if let TL::Inv(j) = t { Some(&ix.invs[*j]) } else { None }).collect();
        let items: Vec<&&crate::index::Inv> = invs.iter().filter(|i| i.mk == Mk::Item).collect();
        if !af.failed() {
            // R1: exactly once, in stream order
            rep.premise("C13.R1.items_exactly_once_in_order");
            rep.premise_n("C13.R1.items", yielded.len() as u64);
            let got: Vec<Uid> = items.iter().map(|i| i.msg).collect();
            let exp: Vec<Uid> = yielded.iter().map(|y| y.1).collect();
            // on L2 a yielded-but-unhandled item is only final once the actor has completed stopped()
            let final_ok = !cx.mt || matches!(af.t_final(), Some((_, Some(_))));
            if got != exp && (final_ok || got.len() > exp.len() || !exp.starts_with(&got)) {
                let kind = if got.len() < exp.len() { "item_lost" } else if got.len() > exp.len() { "item_duplicated" } else { "item_reordered" };
                rep.fail(P, "R1", kind, format!("stream actor tag {}: stream yielded items {:?} but handled {:?}", af.tag, exp, got), yielded.iter().map(|y| y.0).take(4).collect());
            }
            // R3: nothing being handled is ever abandoned
            for inv in &invs {
                rep.premise("C13.R3.never_abandoned");
                if let Some((s, _)) = inv.abandoned {
                    rep.fail(P, "R3", format!("abandoned={:?}", inv.mk), format!("stream actor tag {}: {:?} {} entered at #{} was abandoned at #{s}", af.tag, inv.mk, inv.msg, inv.i), vec![inv.i, s]);
                } else if inv.out.is_none() && af.task_end.is_some() {
                    rep.fail(P, "R3", format!("unfinished={:?}", inv.mk), format!("stream actor tag {}: {:?} {} entered at #{} never finished", af.tag, inv.mk, inv.msg, inv.i), vec![inv.i]);
                }
            }
            let msgs = invs.iter().filter(|i| matches!(i.mk, Mk::Fire | Mk::Ask)).count();
            if msgs > 0 && !items.is_empty() {
                nontrivial = true;
                // interleaving observation: a message handled between two items
                let first_item = items.first().map(|i| i.i).unwrap_or(0);
                let last_item = items.last().map(|i| i.i).unwrap_or(0);
                if invs.iter().any(|i| matches!(i.mk, Mk::Fire | Mk::Ask) && i.i > first_item && i.i < last_item) {
                    rep.count("C13.interleaved_message_between_items", 1);
                }
            }
            // tie-break observation: at a handler exit, a message was already waiting in the mailbox *and* the
            // stream had its next item ready (same burst): which source did the loop's random select take next?
            if let Some(spec) = spec {
                if !spec.always_ready {
                    // items of one burst: consecutive yields at the same virtual instant
                    let tl: Vec<&&crate::index::Inv> = invs.iter().collect();
                    for w in tl.windows(2) {
                        let (a, b) = (w[0], w[1]);
                        let Some(exit) = a.out.map(|o| o.0) else { continue };
                        // a client message accepted before `exit` and handled after it
                        let msg_waiting = ix.ops.iter().any(|o| o.tag == af.tag && matches!(o.op, OpK::Send | OpK::Call) && o.b < exit && ix.inv_of.get(&o.msg).map(|v| ix.invs[v[0]].i > exit).unwrap_or(false) && (o.op == OpK::Call || o.e.map(|e| e < exit).unwrap_or(false)));
                        // the next item was ready: it was yielded at the same virtual time as `a` ended and belongs to a burst
                        let next_item_ready = yielded.iter().any(|y| y.0 > exit && ix.ev[y.0 as usize].vt == ix.ev[exit as usize].vt) && spec.bursts.iter().any(|b| b.1 >= 2);
                        if msg_waiting && next_item_ready {
                            match b.mk {
                                Mk::Item => rep.count("C13.tie_break.item_taken_first", 1),
                                Mk::Fire | Mk::Ask => rep.count("C13.tie_break.message_taken_first", 1),
                                _ => {}
                            }
                        }
                    }
                }
            }
            // R2: messages in their own order (same rule as C01.R3, restricted to this actor)
            let subs: Vec<&crate::index::OpRec> = ix.ops.iter().filter(|o| o.tag == af.tag && matches!(o.op, OpK::Send | OpK::Call | OpK::ForceSend) && o.executed()).collect();
            for m1 in &subs {
                let done = matches!((&m1.op, &m1.res), (OpK::Send | OpK::ForceSend, Some(Res::Ok)) | (OpK::Call, Some(Res::Reply { .. })));
                let Some(r1) = m1.e else { continue };
                if !done {
                    continue;
                }
                for m2 in &subs {
                    if m2.b <= r1 || m1.msg == m2.msg {
                        continue;
                    }
                    let Some(e2) = ix.inv_of.get(&m2.msg).map(|v| ix.invs[v[0]].i) else { continue };
                    rep.premise("C13.R2.messages_in_order");
                    match ix.inv_of.get(&m1.msg).map(|v| ix.invs[v[0]].i) {
                        Some(e1) if e1 < e2 => {}
                        other => rep.fail(P, "R2", "message_order", format!("stream actor tag {}: msg {} completed before msg {} began, but handled at {other:?} vs #{e2}", af.tag, m1.msg, m2.msg), vec![m1.b, m2.b, e2]),
                    }
                }
            }
            // R4: ends with finished + stopped exactly once and resolves Ok, on stream end / stop / last drop
            let cause = af.first_term_cause();
            if cause.is_some() {
                rep.premise("C13.R4.terminates");
                let infinite = spec.map(|s| !s.ends || s.repeat || s.always_ready).unwrap_or(false);
                if infinite && (af.stops.iter().any(|s| s.accepted) || af.zero_at.is_some()) {
                    rep.premise("C13.R4.terminates_despite_endless_stream");
                    nontrivial = true;
                }
                let ok = matches!(af.task_end, Some((_, _, "done"))) && matches!(af.incs.last().and_then(|i| i.f), Some((_, Some(_)))) && matches!(af.t_final(), Some((_, Some(_))));
                if !ok {
                    rep.fail(P, "R4", format!("no_graceful_end;infinite={infinite}"), format!("stream actor tag {} had a termination cause at {cause:?} (stops={:?}, stream_end={:?}, last_drop={:?}) but task_end={:?} finished={:?} stopped={:?}", af.tag, af.stops, af.stream_end, af.zero_at, af.task_end, af.incs.last().and_then(|i| i.f), af.t_final()), vec![cause.unwrap_or(0)]);
                }
                for o in ix.ops.iter().filter(|o| o.tag == af.tag && matches!(o.op, OpK::Await | OpK::AwaitRef) && o.e.is_some()) {
                    rep.premise("C13.R4.await_ok");
                    if !matches!(o.res, Some(Res::Ok)) {
                        rep.fail(P, "R4", "await_not_ok", format!("await c{}#{} on stream actor tag {} returned {:?}", o.c, o.i, af.tag, o.res), vec![o.b]);
                    }
                }
            }
            // R5: bounded progress after an accepted stop on a never-ending stream
            if let Some(acc) = af.stops.iter().filter(|s| s.accepted).map(|s| s.r).min() {
                let after = items.iter().filter(|i| i.i > acc).count();
                rep.premise("C13.R5.bounded_progress_after_stop");
                rep.max("max.items_after_stop", after as u64);
                if after > 200 {
                    rep.fail(P, "R5", "stop_starved", format!("stream actor tag {}: {after} items handled after an accepted stop at #{acc}", af.tag), vec![acc]);
                }
            }
        }
    }
    // R6: a stream-attached actor is never idle while its stream has an item ready: at a quiescent point (nothing
    // runnable) the harness stream reports how many items it could hand out at once
    let mut sid_task: std::collections::HashMap<u64, u32> = Default::default();
    for e in ix.ev {
        if let K::StreamYield { sid, .. } = &e.k {
            sid_task.entry(*sid).or_insert(e.task);
        }
    }
    for (stamp, note) in &ix.notes {
        let Some(rest) = note.strip_prefix("ready_stream sid=") else { continue };
        let Some(sid) = rest.split(' ').next().and_then(|s| s.parse::<u64>().ok()) else { continue };
        let Some(task) = sid_task.get(&sid) else { continue };
        let Some(a) = ix.actors.get(task) else { continue };
        if a.end.map(|e| e.0 < *stamp).unwrap_or(false) {
            continue;
        }
        rep.premise("C13.R6.never_idle_with_ready_stream");
        let busy = a.timeline.iter().any(|t| match t {
            crate::index::TL::Inv(j) => {
                let inv = &ix.invs[*j];
                inv.i < *stamp && inv.out.map(|o| o.0 > *stamp).unwrap_or(inv.abandoned.map(|x| x.0 > *stamp).unwrap_or(true))
            }
            crate::index::TL::Cb(j) => {
                let cb = &ix.cbs[*j];
                cb.i < *stamp && cb.o.map(|o| o.0 > *stamp).unwrap_or(true)
            }
        });
        if !busy {
            rep.fail(P, "R6", "idle_with_ready_stream", format!("stream actor task {task} is idle at the quiescent point #{stamp} although its stream has items ready ({note})"), vec![*stamp]);
            break;
        }
    }
    super::submission_starvation("C13", cx, rep);
    rep.nontrivial = nontrivial;
}
