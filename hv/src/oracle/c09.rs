//! C09 broker: exactly-once / zero / common order.
use std::collections::{BTreeMap, BTreeSet, HashMap};

use super::facts::facts;
use super::{Cx, Report};
use crate::index::TL;
use crate::log::*;

const P: &str = "C09";

#[derive(Clone, Debug)]
struct Pub {
    uid: Uid,
    topic: u8,
    b: u64,
    r: Option<u64>,
    ok: bool,
    who: String,
}

#[derive(Clone, Debug)]
struct SubEv {
    tag: u32,
    topic: u8,
    b: u64,
    r: Option<u64>,
    sub: bool, // true subscribe, false unsubscribe
    ok: bool,
}

pub fn check(cx: &Cx, rep: &mut Report) {
    let ix = cx.ix;
    let fx = facts(cx);
    let mut pubs: Vec<Pub> = vec![];
    let mut subs: Vec<SubEv> = vec![];
    let mut barriers: Vec<(u8, u64, u64)> = vec![]; // (topic, b, r)
    for o in &ix.ops {
        match o.op {
            OpK::Publish | OpK::PublishAddr | OpK::TryPublish => pubs.push(Pub { uid: o.msg, topic: o.arg as u8, b: o.b, r: o.e, ok: matches!(o.res, Some(Res::Ok)), who: format!("client{}", o.c) }),
            OpK::Subscribe | OpK::Unsubscribe if o.executed() => subs.push(SubEv { tag: o.tag, topic: o.arg as u8, b: o.b, r: o.e, sub: o.op == OpK::Subscribe, ok: matches!(o.res, Some(Res::Ok)) }),
            OpK::BrokerPing => {
                if let (Some(e), Some(Res::Ok)) = (o.e, &o.res) {
                    barriers.push((o.arg as u8, o.b, e));
                }
            }
            _ => {}
        }
    }
    // publications and subscriptions made from inside handlers / started(): begin = entry of the enclosing
    // handler or callback (conservative), end = the effect event
    for e in ix.ev {
        if let K::Effect { msg, actor, what, arg, ok, .. } = &e.k {
            let begin = |ix: &crate::index::Index| -> u64 {
                // enclosing bracket on that actor
                let mut b = 0;
                if let Some(a) = ix.actors.get(actor) {
                    for t in &a.timeline {
                        let s = match t {
                            TL::Inv(j) => ix.invs[*j].i,
                            TL::Cb(j) => ix.cbs[*j].i,
                        };
                        if s < e.stamp {
                            b = s;
                        }
                    }
                }
                b
            };
            match *what {
                "publish" => {
                    // topic of a handler publish: look at the script step? the deliveries tell; store 255 and resolve below
                    pubs.push(Pub { uid: *arg, topic: 255, b: begin(ix), r: Some(e.stamp), ok: *ok, who: format!("actor{actor}") });
                    let _ = msg;
                }
                "subscribe" => {
                    let tag = ix.actors.get(actor).map(|a| a.tag).unwrap_or(u32::MAX);
                    subs.push(SubEv { tag, topic: *arg as u8, b: begin(ix), r: Some(e.stamp), sub: true, ok: *ok });
                }
                _ => {}
            }
        }
    }
    if pubs.is_empty() {
        return;
    }
    // deliveries: publication uid -> [(subscriber tag, actor task, stamp)]
    let mut deliv: HashMap<Uid, Vec<(u32, u32, u64)>> = HashMap::new();
    let mut topic_of: HashMap<Uid, u8> = HashMap::new();
    for inv in &ix.invs {
        if let Mk::Topic(t) = inv.mk {
            deliv.entry(inv.msg).or_default().push((inv.tag, inv.actor, inv.i));
            topic_of.insert(inv.msg, t);
        }
    }
    for p in pubs.iter_mut() {
        if p.topic == 255 {
            // handler publishes: the program knows the topic; recover it from deliveries or from the program scripts
            p.topic = topic_of.get(&p.uid).copied().unwrap_or(255);
        }
    }
    // topic of never-delivered handler publications: from the program (all handler publishes of a program use
    // the topics listed in prog.topics; with a single topic it is unambiguous)
    for p in pubs.iter_mut() {
        if p.topic == 255 && cx.prog.topics.len() == 1 {
            p.topic = cx.prog.topics[0];
        }
    }
    let sub_tags: BTreeSet<u32> = cx.prog.actors.iter().map(|d| d.tag).collect();
    let mut nontrivial = false;
    let publishers: BTreeSet<&str> = pubs.iter().map(|p| p.who.as_str()).collect();
    let overlapping_pubs = pubs.iter().enumerate().any(|(i, a)| pubs.iter().skip(i + 1).any(|b| a.who != b.who && a.topic == b.topic && a.b < b.r.unwrap_or(u64::MAX) && b.b < a.r.unwrap_or(u64::MAX)));
    if publishers.len() >= 2 && overlapping_pubs {
        nontrivial = true;
    }
    for p in &pubs {
        if p.topic == 255 {
            continue;
        }
        let d = deliv.get(&p.uid).cloned().unwrap_or_default();
        // R6: terminated subscribers neither block nor fail a publish
        if let Some(_r) = p.r {
            rep.premise("C09.R6.publish_returns_ok");
            if !p.ok && !p.who.starts_with("clientX") {
                // try_publish may legitimately return None (registry locked / broker not running): Res::NoneVal => ok=false
                let is_try = ix.ops.iter().any(|o| o.msg == p.uid && o.op == OpK::TryPublish && matches!(o.res, Some(Res::NoneVal)));
                if !is_try {
                    rep.fail(P, "R6", "publish_failed", format!("publication {} on topic {} by {} failed", p.uid, p.topic, p.who), vec![p.b]);
                }
            }
        } else {
            rep.fail(P, "R6", "publish_hangs", format!("publication {} on topic {} by {} never returned", p.uid, p.topic, p.who), vec![p.b]);
            continue;
        }
        if !p.ok {
            continue;
        }
        let (pb, pr) = (p.b, p.r.unwrap_or(u64::MAX));
        for tag in &sub_tags {
            let Some(task) = ix.task_of(*tag) else { continue };
            let Some(af) = fx.get(&task) else { continue };
            let n = d.iter().filter(|x| x.0 == *tag).count();
            // R3: never more than once
            rep.premise("C09.R3.at_most_once");
            if n > 1 {
                rep.fail(P, "R3", "delivered_twice", format!("publication {} (topic {}) was delivered {n} times to subscriber tag {tag}", p.uid, p.topic), d.iter().filter(|x| x.0 == *tag).map(|x| x.2).collect());
            }
            let mine: Vec<&SubEv> = subs.iter().filter(|s| s.tag == *tag && s.topic == p.topic).collect();
            // subscription state certainly "subscribed" at b(p): a successful subscribe settled before b(p) and no
            // unsubscribe begun before r(p) after that subscribe began
            let last_sub_settled = mine.iter().filter(|s| s.sub && s.ok && s.r.map(|r| r < pb).unwrap_or(false)).map(|s| s.b).max();
            let certainly_subscribed = match last_sub_settled {
                Some(sb) => !mine.iter().any(|s| !s.sub && s.b < pr && s.r.map(|r| r > sb).unwrap_or(true)),
                None => false,
            };
            // certainly "not subscribed": no subscribe begun before r(p), or an unsubscribe settled before b(p)
            // with no subscribe that could follow it (begun before r(p) and not settled before the unsubscribe began)
            let any_sub_before = mine.iter().any(|s| s.sub && s.b < pr);
            let last_unsub_settled = mine.iter().filter(|s| !s.sub && s.ok && s.r.map(|r| r < pb).unwrap_or(false)).map(|s| s.b).max();
            let certainly_unsubscribed = !any_sub_before
                || match last_unsub_settled {
                    Some(ub) => !mine.iter().any(|s| s.sub && s.b < pr && s.r.map(|r| r > ub).unwrap_or(true)),
                    None => false,
                };
            if certainly_unsubscribed {
                rep.premise("C09.R2.not_subscribed_zero");
                if n > 0 {
                    rep.fail(P, "R2", if any_sub_before { "delivered_after_unsubscribe" } else { "delivered_without_subscription" }, format!("publication {} (topic {}) was delivered to tag {tag} which was not subscribed when it was published", p.uid, p.topic), d.iter().filter(|x| x.0 == *tag).map(|x| x.2).collect());
                }
            } else if certainly_subscribed {
                // alive past the fan-out: a barrier ping of that topic begun after r(p) returned before any
                // termination cause of the subscriber
                // a fault counts from the moment the message that triggers it was submitted (it is queued in front
                // of later deliveries, which are then never handled)
                let fault_cause = ix
                    .faults
                    .iter()
                    .filter(|f| ix.ev[f.0 as usize].task == af.task)
                    .map(|f| {
                        let by_op = ix.ops.iter().filter(|o| o.msg == f.2 && o.msg != 0).map(|o| o.b).min();
                        // the triggering message may itself be a publication (also one made from a handler)
                        let by_pub = pubs.iter().filter(|q| q.uid == f.2 && f.2 != 0).map(|q| q.b).min();
                        [by_op, by_pub, Some(f.0)].into_iter().flatten().min().unwrap_or(f.0)
                    })
                    .min();
                let cause = [af.first_term_cause(), fault_cause, af.task_end.map(|e| e.0)].into_iter().flatten().min();
                let barrier = barriers.iter().any(|(t, b, r)| *t == p.topic && *b > pr && cause.map(|c| *r < c).unwrap_or(true));
                // on L2 a missing delivery is only final once the subscriber has completed stopped()
                let final_ok = !cx.mt || matches!(af.t_final(), Some((_, Some(_)))) || n >= 1;
                if barrier && final_ok {
                    rep.premise("C09.R1.subscribed_exactly_once");
                    if mine.iter().filter(|s| s.sub).count() > 1 {
                        rep.premise("C09.R1.resubscribed_still_once");
                    }
                    // a subscriber that fails loses whatever is still in its mailbox: only a healthy one must have handled it
                    if n > 1 || (n == 0 && !af.failed()) {
                        rep.fail(P, "R1", if n == 0 { "not_delivered" } else { "delivered_twice" }, format!("publication {} (topic {}, published #{pb}..#{pr} by {}) was delivered {n} times to subscriber tag {tag}, which was subscribed and alive past the fan-out", p.uid, p.topic, p.who), vec![pb, pr]);
                    }
                } else {
                    rep.count("C09.R1.no_barrier_unconstrained", 1);
                }
                // R6: other subscribers dead at publish time?
                if fx.values().any(|o| o.tag != *tag && sub_tags.contains(&o.tag) && o.task_end.map(|e| e.0 < pb).unwrap_or(false) && subs.iter().any(|s| s.tag == o.tag && s.topic == p.topic && s.sub)) && n == 1 {
                    rep.premise("C09.R6.reaches_live_despite_dead");
                }
            } else {
                rep.count("C09.subscription_change_racing_publish", 1);
                nontrivial = true;
            }
        }
        // nobody else
        for (tag, _, s) in &d {
            if !sub_tags.contains(tag) {
                rep.fail(P, "R2", "delivered_to_stranger", format!("publication {} delivered to unknown actor tag {tag}", p.uid), vec![*s]);
            }
        }
    }
    // R4: one common order per topic extending every publisher's own order
    let topics: BTreeSet<u8> = pubs.iter().map(|p| p.topic).filter(|t| *t != 255).collect();
    for t in topics {
        let tp: Vec<&Pub> = pubs.iter().filter(|p| p.topic == t).collect();
        let mut edges: BTreeMap<Uid, BTreeSet<Uid>> = BTreeMap::new();
        // subscriber sequences
        for a in ix.actors.values() {
            let seq: Vec<Uid> = a.timeline.iter().filter_map(|x| if let TL::Inv(j) = x { if ix.invs[*j].mk == Mk::Topic(t) { Some(ix.invs[*j].msg) } else { None } } else { None }).collect();
            for w in seq.windows(2) {
                edges.entry(w[0]).or_default().insert(w[1]);
            }
            if seq.len() >= 2 {
                rep.premise("C09.R4.common_order");
            }
        }
        // publisher order: same publisher, p1 settled before p2 began
        for a in &tp {
            for b in &tp {
                if a.who == b.who && a.ok && b.ok && a.r.map(|r| r < b.b).unwrap_or(false) {
                    edges.entry(a.uid).or_default().insert(b.uid);
                    rep.premise("C09.R4.publisher_order_edges");
                }
            }
        }
        // cycle detection (DFS)
        let nodes: Vec<Uid> = edges.keys().copied().collect();
        let mut color: HashMap<Uid, u8> = HashMap::new();
        fn dfs(u: Uid, edges: &BTreeMap<Uid, BTreeSet<Uid>>, color: &mut HashMap<Uid, u8>, stack: &mut Vec<Uid>) -> Option<Vec<Uid>> {
            color.insert(u, 1);
            stack.push(u);
            if let Some(vs) = edges.get(&u) {
                for v in vs {
                    match color.get(v).copied().unwrap_or(0) {
                        0 => {
                            if let Some(c) = dfs(*v, edges, color, stack) {
                                return Some(c);
                            }
                        }
                        1 => {
                            let pos = stack.iter().position(|x| x == v).unwrap_or(0);
                            return Some(stack[pos..].to_vec());
                        }
                        _ => {}
                    }
                }
            }
            stack.pop();
            color.insert(u, 2);
            None
        }
        for n in nodes {
            if color.get(&n).copied().unwrap_or(0) == 0 {
                let mut stack = vec![];
                if let Some(cyc) = dfs(n, &edges, &mut color, &mut stack) {
                    rep.fail(P, "R4", "order_cycle", format!("topic {t}: no common delivery order exists; precedence cycle over publications {cyc:?}"), vec![]);
                    break;
                }
            }
        }
    }
    // R5: the broker never keeps a subscriber alive
    for af in fx.values() {
        if af.decl.is_none() || af.failed() || af.is_child {
            continue;
        }
        let subscribed = subs.iter().any(|s| s.tag == af.tag && s.sub && s.ok);
        if !subscribed {
            continue;
        }
        if let Some(z) = af.zero_at {
            if ix.phase("reap").map(|r| z < r).unwrap_or(true) && !af.stops.iter().any(|s| s.accepted) {
                let still_subscribed = !subs.iter().any(|s| s.tag == af.tag && !s.sub && s.ok);
                if still_subscribed {
                    rep.premise("C09.R5.subscriber_dies_while_subscribed");
                    nontrivial = true;
                    // judged before the harness' cleanup phase stops the brokers
                    let settled = ix.phase("settled").unwrap_or(u64::MAX);
                    if !matches!(af.task_end, Some((e, _, "done")) if e < settled) {
                        rep.fail(P, "R5", "kept_alive_by_broker", format!("subscriber tag {} lost its last strong handle at #{z} while subscribed and is still alive at the end", af.tag), vec![z]);
                    }
                }
            }
        }
    }
    rep.nontrivial = nontrivial || rep.counters.get("C09.subscription_change_racing_publish").copied().unwrap_or(0) > 0;
}
