//! C07 restart keeps identity and mailbox and yields a freshly started incarnation.
use super::c10::timers;
use super::facts::facts;
use super::{Cx, Report};
use crate::log::*;
use crate::prog::Strategy;

const P: &str = "C07";

pub fn check(cx: &Cx, rep: &mut Report) {
    let ix = cx.ix;
    let fx = facts(cx);
    let tms = timers(cx);
    let mut nontrivial = false;
    for af in fx.values() {
        // (a service that the registry spawned itself is an ordinary default-strategy actor)
        let Some(decl) = af.decl.or(af.svc_decl) else { continue };
        if decl.entry.stream() {
            continue;
        }
        // strategy actually in effect: only builder entries honour decl.strategy; others are restart-only
        let strat = if decl.entry.builder() { decl.strategy } else { Strategy::RestartOnly };
        // accepted restart requests (client ops and ctx.restart effects)
        let mut reqs: Vec<(u64, u64)> = vec![]; // (b, r)
        for o in ix.ops.iter().filter(|o| o.tag == af.tag && o.op == OpK::Restart && matches!(o.res, Some(Res::Ok))) {
            reqs.push((o.b, o.e.unwrap_or(o.b)));
        }
        for e in ix.ev {
            if let K::Effect { actor, what, ok: true, .. } = &e.k {
                if *actor == af.task && *what == "ctx_restart" {
                    reqs.push((ix.effect_begin(e.stamp), e.stamp));
                }
            }
        }
        if reqs.is_empty() {
            continue;
        }
        nontrivial = true;
        let started_failed = af.incs.iter().any(|i| matches!(i.s_out, Some((_, false))));
        let other_fault = af.faulted && !started_failed;
        if other_fault || af.timeout_failed {
            continue;
        }
        let cause = af.first_term_cause();
        let boundaries = af.incs.len() - 1;
        match strat {
            Strategy::NonRestartable => {
                // R3: request ignored: single incarnation, no extra stopped/started
                rep.premise("C07.R3.non_restartable_ignores");
                if boundaries != 0 {
                    rep.fail(P, "R3", "non_restartable_restarted", format!("non-restartable actor tag {} went through {boundaries} restart(s)", af.tag), vec![af.incs[1].s_in]);
                }
                // "ignores the request": nothing else changes either, in particular its timers keep their schedule
                if af.has_timers {
                    let mut sub = Report::default();
                    super::c10::check(cx, &mut sub);
                    rep.premise("C07.R3.non_restartable_timers_unaffected");
                    for v in sub.violations.into_iter().filter(|v| v.rule == "R2") {
                        // only timers of this actor
                        if tms.iter().any(|t| t.actor == af.task && v.at.first() == Some(&t.reg)) {
                            rep.fail(P, "R3", format!("non_restartable_timers_disturbed;{}", v.sig), v.msg, v.at);
                        }
                    }
                }
            }
            _ => {
                // R3: number of processed restarts
                let must = reqs.iter().filter(|(_, r)| cause.map(|c| *r < c).unwrap_or(true)).count();
                rep.premise("C07.R3.restart_count");
                if !started_failed && (boundaries < must || boundaries > reqs.len()) {
                    rep.fail(P, "R3", "restart_count", format!("actor tag {}: {} restart requests accepted ({must} of them before any stop), but {boundaries} restarts happened", af.tag, reqs.len()), reqs.iter().map(|r| r.0).collect());
                }
                for k in 0..boundaries {
                    let (old, new) = (&af.incs[k], &af.incs[k + 1]);
                    rep.premise("C07.R3.strategy_model");
                    // stopped on the old value, then started on the new one
                    let t_obj_ok = old.t.is_some();
                    let same = old.obj == new.obj;
                    match strat {
                        Strategy::RestartOnly if !same => rep.fail(P, "R3", "restart_only_changed_value", format!("restart-only actor tag {}: incarnation {} runs on object {} but the previous one ran on {}", af.tag, k + 1, new.obj, old.obj), vec![new.s_in]),
                        Strategy::Recreate if same => rep.fail(P, "R3", "recreate_kept_value", format!("recreate-from-default actor tag {}: incarnation {} still runs on object {}", af.tag, k + 1, old.obj), vec![new.s_in]),
                        _ => {}
                    }
                    if !t_obj_ok {
                        rep.fail(P, "R3", "no_stopped_before_restart", format!("actor tag {}: incarnation {k} was not stopped before the restart", af.tag), vec![new.s_in]);
                    }
                    // state: restart-only carries state, recreate starts from zero: first completed invocation of the new incarnation
                    if let Some(first) = new.items.iter().filter_map(|j| ix.invs[*j].out.map(|o| (o.2, ix.invs[*j].i))).next() {
                        let carried: u64 = af.incs[..=k].iter().map(|i| i.items.iter().filter(|j| ix.invs[**j].out.is_some()).count() as u64).sum();
                        let expect = if strat == Strategy::RestartOnly { carried + 1 } else { 1 };
                        rep.premise("C07.R3.state_carried_or_reset");
                        if first.0 != expect {
                            rep.fail(P, "R3", format!("state;strategy={strat:?}"), format!("actor tag {} ({strat:?}): first message of incarnation {} saw seq {} but {expect} was expected", af.tag, k + 1, first.0), vec![first.1]);
                        }
                    }
                }
                // R2: incarnation of each handled message lies between the restarts definitely before / possibly before it
                for m in ix.ops.iter().filter(|o| o.tag == af.tag && matches!(o.op, OpK::Send | OpK::Call | OpK::ForceSend) && o.executed()) {
                    let Some(j) = ix.inv_of.get(&m.msg).and_then(|v| v.first()) else { continue };
                    let inc = af.incs.iter().position(|i| i.items.contains(j));
                    let Some(inc) = inc else { continue };
                    let lo = reqs.iter().filter(|(_, r)| *r < m.b).count();
                    let hi = reqs.iter().filter(|(b, _)| *b < m.e.unwrap_or(u64::MAX)).count();
                    rep.premise("C07.R2.incarnation_of_message");
                    if inc < lo || inc > hi {
                        rep.fail(P, "R2", if inc < lo { "handled_by_old_incarnation" } else { "handled_by_too_new_incarnation" }, format!("msg {} (submitted #{}..#{:?}) was handled by incarnation {inc}, but {lo} restart(s) had been accepted before it began and {hi} could precede it", m.msg, m.b, m.e), vec![m.b, ix.invs[*j].i]);
                    }
                    if lo > 0 && matches!(m.res, Some(Res::Reply { .. }) | Some(Res::Ok)) {
                        rep.count(&format!("C07.R1.ok_after_restart.{:?}", m.hk), 1);
                        rep.premise("C07.R1.handles_survive");
                    }
                }
                // R4: started error during restart => failed termination
                if let Some(k) = af.incs.iter().position(|i| matches!(i.s_out, Some((_, false)))) {
                    if k > 0 {
                        rep.premise("C07.R4.started_error_fails");
                        if k + 1 != af.incs.len() || af.task_end.is_none() {
                            rep.fail(P, "R4", "continued_after_failed_restart", format!("actor tag {} went on after started() failed during restart", af.tag), vec![af.incs[k].s_in]);
                        }
                        for o in ix.ops.iter().filter(|o| o.tag == af.tag && o.e.is_some()) {
                            match (&o.op, &o.res) {
                                (OpK::Await | OpK::AwaitRef, Some(Res::Ok)) => rep.fail(P, "R4", "await_ok_after_failed_restart", format!("await c{}#{} returned Ok although the restart failed", o.c, o.i), vec![o.b]),
                                (OpK::Join | OpK::Consume, Some(Res::Joined(Some(_)))) => rep.fail(P, "R4", "join_some_after_failed_restart", format!("join c{}#{} returned the actor although the restart failed", o.c, o.i), vec![o.b]),
                                _ => {}
                            }
                        }
                    }
                }
                // R5: timers of earlier incarnations do not fire into later ones
                for t in tms.iter().filter(|t| t.actor == af.task) {
                    let Some(reg_inc) = af.incs.iter().rposition(|i| i.s_in <= t.reg) else { continue };
                    if reg_inc + 1 >= af.incs.len() {
                        continue;
                    }
                    let next = &af.incs[reg_inc + 1];
                    // the previous incarnation is over once its stopped() has returned: from then on its timers must
                    // be silent (also while the new incarnation is still inside started())
                    let Some((_, Some(t_out_old))) = af.incs[reg_inc].t else { continue };
                    let s_out = t_out_old;
                    if next.s_in == u64::MAX {
                        continue;
                    }
                    let boundary_vt = ix.ev[s_out as usize].vt;
                    rep.premise("C07.R5.old_timers_silent");
                    // exact order: a firing event of this timer after stopped() of its incarnation had returned
                    if !cx.mt {
                        if let Some(f) = ix.ev.iter().find(|e| e.stamp > s_out && matches!(&e.k, K::TimerFire { id } if *id == t.id)) {
                            rep.fail(P, "R5", format!("old_timer_fired_after_stopped;kind={}", t.kind), format!("{} timer {} registered in incarnation {reg_inc} fired at #{} although stopped() of that incarnation had returned at #{s_out}", t.kind, t.id, f.stamp), vec![t.reg, s_out, f.stamp]);
                            continue;
                        }
                    }
                    let fired: Vec<(u64, u64)> = if t.kind == "delayed_exec" {
                        ix.ev.iter().filter_map(|e| if let K::Exec { id, .. } = &e.k { if *id == t.id { Some((e.stamp, e.vt)) } else { None } } else { None }).collect()
                    } else {
                        ix.inv_of.get(&t.id).map(|v| v.iter().map(|j| (ix.invs[*j].i, ix.invs[*j].it)).collect()).unwrap_or_default()
                    };
                    for (n, (s, vt)) in fired.iter().enumerate() {
                        // firing instant of the n-th delivery: exact for interval / delayed kinds, a lower bound for interval_with
                        let fire_vt = t.reg_vt + (n as u64 + 1) * t.dur;
                        let _ = vt;
                        if fire_vt > boundary_vt && *s > s_out {
                            rep.fail(P, "R5", format!("old_timer_fired;kind={}", t.kind), format!("{} timer {} registered in incarnation {reg_inc} (t={}) fired at t>={fire_vt} (delivery #{} handled at #{s}), after stopped() of that incarnation had returned at t={boundary_vt} (restart into incarnation {})", t.kind, t.id, t.reg_vt, n + 1, reg_inc + 1), vec![t.reg, s_out, *s]);
                            break;
                        }
                    }
                }
            }
        }
    }
    // R1 (identity): a restarted actor is still the same subscriber for the broker (the only place where the library
    // compares identities): what it subscribes to in started(), once per incarnation, arrives exactly once
    if !cx.prog.topics.is_empty() && fx.values().any(|a| a.incs.len() > 1) {
        let mut sub = Report::default();
        super::c09::check(cx, &mut sub);
        rep.premise("C07.R1.same_subscriber_after_restart");
        for v in sub.violations.into_iter().filter(|v| matches!(v.rule, "R1" | "R3") && v.sig.contains("twice")) {
            rep.fail(P, "R1", format!("c09:{}:{}", v.rule, v.sig), v.msg, v.at);
        }
    }
    rep.nontrivial = nontrivial;
}
