//! C06 failure containment: every single fault (kind x position) in every program of the family.
//! Rules R1, R3, R4, R5 re-use the oracles of C02 / C10 / C16 / C14 on the faulted traces (their rules are
//! written to be sound under faults); R2 and R6 are specific.
use super::facts::facts;
use super::{Cx, Report, c02, c10, c14, c16};
use crate::log::*;

const P: &str = "C06";

fn adopt(rep: &mut Report, sub: Report, rule: &'static str, from: &str, keep: impl Fn(&super::Violation) -> bool) {
    for (k, n) in sub.premises {
        let key: &'static str = match (rule, k) {
            ("R1", "C02.R4.resolved") => "C06.R1.ops_resolved",
            ("R1", "C02.R5.after_end") => "C06.R1.later_ops_err",
            ("R1", "C02.R5.pending_across_end") => "C06.R1.pending_ops_err",
            ("R3", "C10.R4.nothing_after_end") => "C06.R3.timers_silent_after_end",
            ("R3", "C10.R6.timer_tasks_end") => "C06.R3.timer_tasks_end",
            ("R4", "C16.R2.released_child_stops_gracefully") => "C06.R4.children_released",
            ("R5", "C14.R3.from_registry_returns_live_instance") => "C06.R5.registry_respawns",
            ("R5", "C14.R3.try_from_registry_never_dead") => "C06.R5.try_from_registry_never_dead",
            ("R5", "C14.R3.register_after_unawaited_termination") => "C06.R5.register_succeeds",
            _ => continue,
        };
        rep.premise_n(key, n);
    }
    for v in sub.violations {
        if keep(&v) {
            rep.fail(P, rule, format!("{from}:{}:{}", v.rule, v.sig), v.msg, v.at);
        }
    }
}

pub fn check(cx: &Cx, rep: &mut Report) {
    let ix = cx.ix;
    let timeout_failure = facts(cx).values().any(|a| a.timeout_failed);
    if timeout_failure {
        rep.count("fault_table_hit.fail_on_timeout@handler", 1);
    }
    if !ix.has_fault() && !timeout_failure {
        // the fault-free base run of a family: nothing to contain (still counted as an evaluation)
        rep.count("C06.fault_free_runs", 1);
        return;
    }
    let fx = facts(cx);
    rep.nontrivial = true;
    // R1: pending and later operations on the failed actor resolve with errors (no hang)
    let mut sub = Report::default();
    c02::check(cx, &mut sub);
    adopt(rep, sub, "R1", "c02", |v| v.rule == "R4" || v.rule == "R5");
    // R3: its timers stop firing, its timer tasks end
    let mut sub = Report::default();
    c10::check(cx, &mut sub);
    adopt(rep, sub, "R3", "c10", |v| v.rule == "R4" || v.rule == "R6");
    // R4: the children it holds are released and stop gracefully
    let mut sub = Report::default();
    c16::check(cx, &mut sub);
    // ... and a dead child must not cost its healthy siblings the parent's broadcasts ("other actors keep working")
    if let Some(n) = sub.premises.get("C16.R3.broadcast_exactly_once") {
        rep.premise_n("C06.R6.healthy_children_still_served", *n);
    }
    let lost: Vec<super::Violation> = sub.violations.iter().filter(|v| v.rule == "R3" && v.sig.contains("lost")).cloned().collect();
    for v in lost {
        rep.fail(P, "R6", format!("c16:{}:{}", v.rule, v.sig), v.msg, v.at);
    }
    adopt(rep, sub, "R4", "c16", |v| v.rule == "R2");
    // R5: the registry treats it as not running
    let mut sub = Report::default();
    c14::check(cx, &mut sub);
    adopt(rep, sub, "R5", "c14", |v| v.rule == "R3");
    // R6 (broker): a failed subscriber must not cost the healthy ones their deliveries
    let mut sub = Report::default();
    super::c09::check(cx, &mut sub);
    if let Some(n) = sub.premises.get("C09.R1.subscribed_exactly_once") {
        rep.premise_n("C06.R6.healthy_subscribers_still_served", *n);
    }
    for v in sub.violations.into_iter().filter(|v| v.rule == "R1" || v.rule == "R6") {
        rep.fail(P, "R6", format!("c09:{}:{}", v.rule, v.sig), v.msg, v.at);
    }
    // R2: awaiting a failed actor yields an error, join yields None
    for af in fx.values() {
        if ix.task_of(af.tag) != Some(af.task) {
            continue;
        }
        if af.failed() && af.task_end.is_some() {
            // a fault that hit after the actor had completed stopped() and notified is not a failure of the actor
            for o in ix.ops.iter().filter(|o| o.tag == af.tag && o.e.is_some() && o.executed()) {
                match (&o.op, &o.res) {
                    (OpK::Await | OpK::AwaitRef, Some(r)) => {
                        rep.premise("C06.R2.await_err");
                        if matches!(r, Res::Ok) {
                            rep.fail(P, "R2", format!("await_ok_on_failed;op={:?}", o.op), format!("{:?} c{}#{} returned Ok although actor tag {} failed ({:?})", o.op, o.c, o.i, af.tag, af.task_end), vec![o.b]);
                        }
                    }
                    (OpK::Halt, Some(r)) => {
                        rep.premise("C06.R2.await_err");
                        if matches!(r, Res::Ok) {
                            rep.fail(P, "R2", "halt_ok_on_failed", format!("halt c{}#{} returned Ok although actor tag {} failed", o.c, o.i, af.tag), vec![o.b]);
                        }
                    }
                    (OpK::Join | OpK::Consume, Some(r)) => {
                        rep.premise("C06.R2.join_none");
                        if matches!(r, Res::Joined(Some(_))) {
                            rep.fail(P, "R2", "join_some_on_failed", format!("{:?} c{}#{} returned the actor although actor tag {} failed", o.op, o.c, o.i, af.tag), vec![o.b]);
                        }
                    }
                    _ => {}
                }
            }
            // it never handles anything after the fault (no resurrection)
            let fault_at = ix.faults.iter().filter(|f| ix.ev[f.0 as usize].task == af.task).map(|f| f.0).min();
            if let Some(f) = fault_at {
                rep.premise("C06.R2.no_activity_after_fault");
                let later = ix.actors[&af.task].timeline.iter().any(|t| match t {
                    crate::index::TL::Inv(j) => ix.invs[*j].i > f,
                    crate::index::TL::Cb(j) => ix.cbs[*j].i > f,
                });
                // a started() error during restart is followed by nothing; a panic likewise
                if later {
                    rep.fail(P, "R2", "activity_after_fault", format!("actor tag {} ran a handler or callback after its fault at #{f}", af.tag), vec![f]);
                }
            }
        }
    }
    // R6: everybody else keeps working and sees nothing but errors
    for af in fx.values() {
        let Some(decl) = af.decl else { continue };
        if af.failed() || decl.timeout.is_some() || af.stream_end.is_some() {
            continue;
        }
        // not a child of anybody (children end with their parents: R4) ?
        rep.premise("C06.R6.bystander_unaffected");
        // 1. every call/ping completed before any termination cause of *this* actor succeeded
        let cause = af.first_term_cause();
        for m in ix.ops.iter().filter(|o| o.tag == af.tag && matches!(o.op, OpK::Call | OpK::Ping) && o.executed()) {
            let Some(r) = m.e else { continue };
            if cause.map(|c| r < c).unwrap_or(true) && !af.is_child {
                rep.premise("C06.R6.bystander_calls_ok");
                if m.is_err() {
                    rep.fail(P, "R6", format!("bystander_call_err;op={:?}", m.op), format!("{:?} c{}#{} on the non-faulted actor tag {} returned {:?}", m.op, m.c, m.i, af.tag, m.res), vec![m.b]);
                }
            }
        }
        // 2. it is not torn down: if it ended, it ended gracefully and for a reason
        if let Some((end, _, how)) = af.task_end {
            let graceful = how == "done" && matches!(af.t_final(), Some((_, Some(_))));
            if !graceful {
                rep.fail(P, "R6", "bystander_failed", format!("non-faulted actor tag {} ended abnormally ({how}) at #{end}", af.tag), vec![end]);
            } else if cause.is_none() && !af.is_child {
                rep.fail(P, "R6", "bystander_terminated_without_cause", format!("non-faulted actor tag {} terminated at #{end} without stop, drop or stream end", af.tag), vec![end]);
            }
        }
        // 3. an actor that called the failed one observed exactly an error, and went on handling
        for e in ix.ev {
            if let K::Effect { actor, what, ok, msg, .. } = &e.k {
                if *actor == af.task && *what == "call_addr" {
                    rep.premise("C06.R6.caller_of_failed_sees_error_only");
                    if !*ok {
                        rep.count("C06.R6.calls_into_failed_actor_err", 1);
                    }
                    // the handler that made the call completed
                    let done = ix.inv_of.get(msg).map(|v| v.iter().any(|j| ix.invs[*j].out.is_some())).unwrap_or(false);
                    if !done {
                        rep.fail(P, "R6", "caller_handler_did_not_complete", format!("the handler of msg {msg} on actor tag {} called another actor and never completed", af.tag), vec![e.stamp]);
                    }
                }
            }
        }
    }
}
