//! C15 every strong handle kind keeps the actor fully functional.
use std::collections::BTreeMap;

use super::c10::timers;
use super::facts::facts;
use super::{Cx, Report};
use crate::index::TL;
use crate::log::*;

const P: &str = "C15";

/// per-kind strong-handle counts of `tag` right before `stamp`
fn kinds_at(cx: &Cx, tag: u32, stamp: u64) -> BTreeMap<Hk, i64> {
    let mut m: BTreeMap<Hk, i64> = BTreeMap::new();
    for e in cx.ix.ev {
        if e.stamp >= stamp {
            break;
        }
        if let K::Ref { tag: t, hk, delta, c } = &e.k {
            if *t == tag && *c < 1000 && *hk != Hk::Fut {
                *m.entry(*hk).or_insert(0) += *delta as i64;
            }
        }
    }
    // a handle that has been moved into a by-value operation which is still in flight (`halt()`, awaiting an address
    // by value, `consume()`) is no longer the client's: whether the library keeps it until the operation completes or
    // lets go of it as soon as it has done its part is not the property's business, so it does not count as existing
    for o in cx.ix.ops.iter().filter(|o| o.tag == tag && o.b < stamp && o.e.map(|e| e >= stamp).unwrap_or(true)) {
        if matches!(o.op, OpK::Halt | OpK::Await | OpK::Consume | OpK::ConsumeSync) && matches!(o.hk, Hk::Addr | Hk::Owning) {
            if let Some(v) = m.get_mut(&o.hk) {
                *v -= 1;
            }
        }
    }
    m.retain(|_, v| *v > 0);
    m
}

fn kinds_sig(m: &BTreeMap<Hk, i64>) -> String {
    m.keys().map(|k| format!("{k:?}")).collect::<Vec<_>>().join("+")
}

pub fn check(cx: &Cx, rep: &mut Report) {
    let ix = cx.ix;
    let fx = facts(cx);
    let tms = timers(cx);
    let mut nontrivial = false;
    for af in fx.values() {
        let Some(decl) = af.decl else { continue };
        if af.is_child || decl.k != 0 || af.failed() {
            continue;
        }
        // (L2 has no task-end events: once the final stopped() has returned, handles that sit inside pending awaits are
        // released at moments the harness cannot order against other threads' operations)
        let end = af.task_end.map(|e| e.0).unwrap_or(if cx.mt { af.t_final().and_then(|t| t.1).unwrap_or(u64::MAX) } else { u64::MAX });
        // R1/R2: ctx.stop / ctx.restart inside a handler succeed while any strong handle exists
        for e in ix.ev {
            if let K::Effect { actor, what, ok, msg, .. } = &e.k {
                if *actor != af.task || !(*what == "ctx_stop" || *what == "ctx_restart") {
                    continue;
                }
                // strong handles that exist over the whole call (from its marker to its log entry)
                let k0 = kinds_at(cx, af.tag, ix.effect_begin(e.stamp));
                let mut kinds = kinds_at(cx, af.tag, e.stamp);
                kinds.retain(|k, _| k0.contains_key(k));
                if kinds.is_empty() {
                    continue;
                }
                let rule: &'static str = if *what == "ctx_stop" { "C15.R1.ctx_stop_ok" } else { "C15.R2.ctx_restart_ok" };
                rep.premise(rule);
                rep.count(&format!("{rule}.{}", kinds_sig(&kinds)), 1);
                if kinds.keys().all(|k| *k != Hk::Addr && *k != Hk::Owning) {
                    nontrivial = true;
                }
                if !*ok {
                    rep.fail(P, if *what == "ctx_stop" { "R1" } else { "R2" }, format!("{what}_failed;strong={}", kinds_sig(&kinds)), format!("{what} inside the handler of msg {msg} on actor tag {} failed at #{} although strong handles {:?} exist", af.tag, e.stamp, kinds), vec![e.stamp]);
                }
            }
        }
        // R2b: a successful ctx.restart / ctx.stop takes effect (restart happens / actor stops): covered by C07 / C04
        // R4: weak handles upgrade while any strong handle exists
        for o in ix.ops.iter().filter(|o| o.tag == af.tag && o.op == OpK::Upgrade && o.executed()) {
            let Some(e) = o.e else { continue };
            // "as long as any strong handle exists every weak handle upgrades" does not end with the actor: the handles
            // of a terminated actor still name it (L1; on L2 handles inside pending awaits are released at moments the
            // harness cannot order once the actor has terminated)
            let after_end = e > end;
            if after_end && cx.mt {
                continue;
            }
            let k1 = kinds_at(cx, af.tag, o.b);
            let k2 = kinds_at(cx, af.tag, e);
            let common: BTreeMap<Hk, i64> = k1.iter().filter(|(k, _)| k2.contains_key(k)).map(|(k, v)| (*k, *v)).collect();
            if common.is_empty() {
                continue;
            }
            // a stop accepted earlier does not matter: the mailbox is open until the loop ends; but once the loop
            // has ended (task end) upgrades may fail: excluded above
            rep.premise("C15.R4.upgrade_while_strong");
            if after_end {
                rep.premise("C15.R4.upgrade_after_termination_while_strong");
            }
            rep.count(&format!("C15.R4.{:?}.{}", o.hk, kinds_sig(&common)), 1);
            if common.keys().all(|k| *k != Hk::Addr && *k != Hk::Owning) {
                nontrivial = true;
            }
            if !matches!(o.res, Some(Res::Handle { some: true, .. })) {
                // the loop may be ending concurrently (stopped() running): the channel closes only at task end
                rep.fail(P, "R4", format!("upgrade_failed{};weak={:?};strong={}", if after_end { "_after_termination" } else { "" }, o.hk, kinds_sig(&common)), format!("upgrade of a {:?} of tag {} at #{} failed although strong handles {:?} exist", o.hk, af.tag, o.b, common), vec![o.b]);
            }
        }
        // R3: timers keep firing on schedule while any strong handle exists (idle single-incarnation actors: exact)
        let idle = af.incs.len() == 1
            && ix.actors[&af.task].timeline.iter().all(|x| match x {
                TL::Inv(j) => ix.invs[*j].out.map(|o| o.1 == ix.invs[*j].it).unwrap_or(false),
                TL::Cb(j) => ix.cbs[*j].o.map(|o| o.1 == ix.cbs[*j].it).unwrap_or(false),
            });
        if idle && !af.parked {
            let last_vt = ix.ev.last().map(|e| e.vt).unwrap_or(0);
            let t_end = af.t_final().map(|t| ix.ev[t.0 as usize].vt).unwrap_or(last_vt);
            for t in tms.iter().filter(|t| t.actor == af.task && (t.kind == "interval" || t.kind == "interval_with" || t.kind == "delayed_send") && t.dur > 0) {
                // was there a period with a reduced strong set (no Addr/Owning) while the actor was alive?
                let reduced_from = af.refs.iter().map(|r| r.0).find(|s| {
                    let k = kinds_at(cx, af.tag, *s + 1);
                    !k.is_empty() && k.keys().all(|h| *h != Hk::Addr && *h != Hk::Owning)
                });
                let Some(rf) = reduced_from else { continue };
                rep.premise("C15.R3.timers_keep_firing");
                nontrivial = true;
                let periodic = t.kind != "delayed_send";
                let mut expect = vec![];
                let mut n = 1u64;
                loop {
                    let at = t.reg_vt + n * t.dur;
                    if at >= t_end {
                        break;
                    }
                    expect.push(at);
                    if !periodic {
                        break;
                    }
                    n += 1;
                }
                let got: Vec<u64> = ix.inv_of.get(&t.id).map(|v| v.iter().map(|j| ix.invs[*j].it).filter(|vt| *vt < t_end).collect()).unwrap_or_default();
                if got != expect {
                    // strong handles alive at the first missed delivery
                    let missed = expect.iter().find(|x| !got.contains(x)).copied().unwrap_or(0);
                    let at = ix.ev.iter().find(|e| e.vt >= missed).map(|e| e.stamp).unwrap_or(rf + 1);
                    let k = kinds_at(cx, af.tag, at.max(rf + 1));
                    rep.fail(P, "R3", format!("timer_stopped;kind={};strong={}", t.kind, kinds_sig(&k)), format!("{} timer {} of actor tag {} (alive until t={t_end}, strong handles reduced to {:?} from #{rf}): deliveries at {:?}, expected {:?}", t.kind, t.id, af.tag, k, got, expect), vec![t.reg, rf]);
                }
            }
        }
    }
    // R5: conversions never change which actor is addressed
    for o in ix.ops.iter().filter(|o| o.is_submit() && o.executed() && o.msg != 0) {
        let Some(v) = ix.inv_of.get(&o.msg) else { continue };
        let inv = &ix.invs[v[0]];
        if o.tag >= 9000 {
            continue;
        }
        rep.premise("C15.R5.same_actor_through_conversions");
        if inv.tag != o.tag {
            rep.fail(P, "R5", format!("wrong_actor;hk={:?}", o.hk), format!("msg {} submitted through a {:?} derived from actor tag {} was handled by actor tag {}", o.msg, o.hk, o.tag, inv.tag), vec![o.b, inv.i]);
        }
    }
    // R1 (cont.): "stop from the actor's own context succeeds" means it takes effect - also on a stream-attached actor
    // whose stream is hot (prefix-safe, see `stop_starvation`)
    super::stop_starvation("C15", cx, rep);
    // R3 (cont.): "its timers keep firing" on busy actors too: an `interval` never waits for the mailbox, so the number
    // of its deliveries is fixed by the clock (the evidence of C10.R2 `interval_count`), e.g. after a tick handler was
    // cut off by a tolerated handler timeout
    {
        let mut sub = Report::default();
        super::c10::check(cx, &mut sub);
        if let Some(n) = sub.premises.get("C10.R2.interval_count_on_busy_actor") {
            rep.premise_n("C15.R3.interval_keeps_firing_on_busy_actor", *n);
        }
        for v in sub.violations.into_iter().filter(|v| v.rule == "R2" && v.sig == "interval_count") {
            rep.fail(P, "R3", "c10:interval_count", v.msg, v.at);
        }
    }
    // R2 (cont.): "restart from the actor's own context succeeds" means the restart *happens*, not only that the call
    // returns Ok: every accepted request is followed by a restart (the evidence of C07.R3 `restart_count`)
    {
        let mut sub = Report::default();
        super::c07::check(cx, &mut sub);
        if let Some(n) = sub.premises.get("C07.R3.restart_count") {
            rep.premise_n("C15.R2.accepted_restart_happens", *n);
        }
        for v in sub.violations.into_iter().filter(|v| v.rule == "R3" && v.sig == "restart_count") {
            rep.fail(P, "R2", "c07:restart_count", v.msg, v.at);
        }
    }
    // R6: "keeps the actor fully functional" begins with keeping it running: whatever kind the remaining strong
    // handles are of, the actor does not begin to terminate while one is held and nobody stopped it (the evidence of
    // C05.R1; on L2 the count is a lower bound, see DESIGN §11)
    let mut sub = Report::default();
    super::c05::check(cx, &mut sub);
    if let Some(n) = sub.premises.get("C05.R1.no_termination_while_held") {
        rep.premise_n("C15.R6.runs_while_any_strong_handle_is_held", *n);
    }
    for v in sub.violations.into_iter().filter(|v| v.rule == "R1" && v.sig.starts_with("terminated_with_strong")) {
        rep.fail(P, "R6", format!("c05:{}", v.sig), v.msg, v.at);
    }
    // R5 (identity): the only place where the library compares the identity of handles is the broker's subscriber
    // table.  A handle obtained by conversion (addr.weak_sender(), sender.downgrade(), ...) must denote the same
    // subscriber as the one the actor's own context registers: subscribe / unsubscribe through either path cancel
    // and replace each other, nothing is delivered twice or after an unsubscribe (the evidence of C09.R1-R3)
    if !cx.prog.topics.is_empty() {
        let mut sub = Report::default();
        super::c09::check(cx, &mut sub);
        let n: u64 = sub.premises.iter().filter(|(k, _)| k.starts_with("C09.R2") || k.starts_with("C09.R3") || k.starts_with("C09.R1")).map(|(_, n)| *n).sum();
        if n > 0 {
            rep.premise_n("C15.R5.same_subscriber_through_conversions", n);
        }
        for v in sub.violations.into_iter().filter(|v| matches!(v.rule, "R1" | "R2" | "R3")) {
            rep.fail(P, "R5", format!("c09:{}:{}", v.rule, v.sig), v.msg, v.at);
        }
    }
    rep.nontrivial = nontrivial;
}
