//! C02 calls return their own handler's result; every operation resolves.
use super::facts::facts;
use super::{Cx, Report};
use crate::log::*;

const P: &str = "C02";

pub fn check(cx: &Cx, rep: &mut Report) {
    let ix = cx.ix;
    let fx = facts(cx);
    let mut callers = std::collections::BTreeSet::new();
    let mut kinds = std::collections::BTreeSet::new();
    for o in &ix.ops {
        if o.op == OpK::Call && o.executed() {
            callers.insert(o.c);
            kinds.insert(o.hk);
        }
        if let (OpK::Call, Some(Res::Reply { msg, actor, obj, seq, fold })) = (o.op, &o.res) {
            // R1: own message, own handler's state
            rep.premise("C02.R1");
            if *msg != o.msg {
                rep.fail(P, "R1", "reply=swapped", format!("call with msg {} got the reply of msg {msg}", o.msg), vec![o.b, o.e.unwrap_or(0)]);
                continue;
            }
            let invs = ix.inv_of.get(&o.msg).cloned().unwrap_or_default();
            // R6 / R2: exactly one handler invocation, completed
            rep.premise("C02.R2");
            if invs.len() != 1 {
                rep.fail(P, "R2", format!("invocations={}", invs.len().min(2)), format!("call msg {} returned Ok but has {} handler invocations", o.msg, invs.len()), vec![o.b, o.e.unwrap_or(0)]);
                continue;
            }
            let inv = &ix.invs[invs[0]];
            match inv.out {
                None => rep.fail(P, "R2", "invocations=incomplete", format!("call msg {} returned Ok but its handler never completed", o.msg), vec![o.b, inv.i]),
                Some((s, _, iseq, ifold)) => {
                    if (inv.obj, inv.actor, iseq, ifold) != (*obj, *actor, *seq, *fold) {
                        rep.fail(P, "R1", "reply=invented", format!("reply of msg {} is (obj {obj}, seq {seq}) but its handler produced (obj {}, seq {iseq})", o.msg, inv.obj), vec![o.b, s]);
                    }
                    // R3: the handler finished before the call returned
                    rep.premise("C02.R3");
                    if o.e.map(|e| e < s).unwrap_or(false) {
                        rep.fail(P, "R3", "reply=early", format!("call msg {} returned at #{} before its handler exit at #{s}", o.msg, o.e.unwrap_or(0)), vec![o.b, s]);
                    }
                }
            }
        }
    }
    // R4: after the scenario has run to quiescence (incl. the reaper), no client op may still be pending on an
    // actor whose loop task has ended.
    for o in &ix.ops {
        if o.e.is_some() {
            continue;
        }
        // the client task itself may have panicked inside the op: that is reported by whoever owns the op kind
        let Some(task) = ix.task_of(o.tag) else { continue };
        let Some(af) = fx.get(&task) else { continue };
        rep.premise("C02.R4.pending_at_end");
        // did the client task running this op panic inside the op?
        let ctask = ix.ev[o.b as usize].task;
        let client_panicked = matches!(ix.task_end.get(&ctask), Some((_, _, "panicked")));
        if client_panicked {
            if matches!(o.op, OpK::Await | OpK::AwaitRef | OpK::Halt) {
                continue; // awaiting an address panicked: judged by C04.R5
            }
            rep.fail(P, "R4", format!("op_panicked={:?};hk={:?}", o.op, o.hk), format!("op c{}#{} {:?} via {:?} panicked instead of resolving", o.c, o.i, o.op, o.hk), vec![o.b]);
            continue;
        }
        if let Some((s, _, how)) = af.task_end {
            rep.fail(P, "R4", format!("hang={:?};hk={:?}", o.op, o.hk), format!("op c{}#{} {:?} via {:?} on tag {} is still pending at the end of the scenario although the actor task ended ({how}) at #{s}", o.c, o.i, o.op, o.hk, o.tag), vec![o.b, s]);
        }
    }
    // count resolved ops (premise of "everything resolves")
    for o in &ix.ops {
        if o.e.is_some() && ix.task_of(o.tag).is_some() {
            rep.premise("C02.R4.resolved");
        }
    }
    // R5: ops begun after the actor's termination became observable (its loop task ended) error out
    for o in &ix.ops {
        let Some(task) = ix.task_of(o.tag) else { continue };
        let Some(af) = fx.get(&task) else { continue };
        let Some((end, _, _)) = af.task_end else { continue };
        if !o.executed() || o.res.is_none() {
            continue;
        }
        if o.b > end {
            match o.op {
                OpK::Send | OpK::Call | OpK::Ping | OpK::ForceSend | OpK::Stop | OpK::Halt | OpK::Restart | OpK::Consume | OpK::ConsumeSync => {
                    if matches!(o.res, Some(Res::Cancelled)) {
                        continue;
                    }
                    rep.premise("C02.R5.after_end");
                    if !o.is_err() {
                        rep.fail(P, "R5", format!("after_end={:?};hk={:?}", o.op, o.hk), format!("op c{}#{} {:?} via {:?} begun at #{} after the actor task ended at #{end} returned {:?} instead of an error", o.c, o.i, o.op, o.hk, o.b, o.res), vec![end, o.b]);
                    }
                }
                OpK::Await | OpK::AwaitRef => {
                    rep.premise("C02.R5.await_after_end");
                    let graceful = !af.failed() && af.t_final().and_then(|t| t.1).is_some();
                    let ok = matches!(o.res, Some(Res::Ok));
                    if ok != graceful {
                        rep.fail(P, "R5", format!("await_after_end;graceful={graceful}"), format!("await c{}#{} begun after the actor task ended returned {:?} but graceful={graceful}", o.c, o.i, o.res), vec![end, o.b]);
                    }
                }
                _ => {}
            }
        } else if o.e.map(|e| e > end).unwrap_or(false) {
            // pending across the termination: calls/pings without a completed handler must be errors
            match o.op {
                OpK::Call | OpK::Ping => {
                    rep.premise("C02.R5.pending_across_end");
                    let handled = o.op == OpK::Call && ix.inv_of.get(&o.msg).map(|v| v.iter().any(|j| ix.invs[*j].out.is_some())).unwrap_or(false);
                    if o.op == OpK::Call && !handled && matches!(o.res, Some(Res::Reply { .. })) {
                        rep.fail(P, "R5", "pending_call_ok_unhandled", format!("call c{}#{} returned Ok without a completed handler", o.c, o.i), vec![o.b, end]);
                    }
                }
                _ => {}
            }
        }
    }
    // R2 (cont.): the converse of "Ok implies a completed handler": a completed handler implies its caller is answered
    rep.premise_n("C02.R2.completed_handler_answers_its_caller", ix.ops.iter().filter(|o| o.op == OpK::Call && matches!(o.res, Some(Res::Reply { .. }))).count() as u64);
    for (j, s) in super::handled_call_without_reply(cx) {
        let o = &ix.ops[j];
        rep.fail(P, "R2", format!("handled_call_got={}", match &o.res { Some(Res::Err(e)) => e, _ => "other" }), format!("call c{}#{} (msg {}) was handled to completion (handler exit at #{s}) but the caller got {:?}", o.c, o.i, o.msg, o.res), vec![o.b, s]);
    }
    super::submission_starvation("C02", cx, rep);
    // R4 (cont.): whoever awaits / joins an actor that has accepted a stop gets an answer without outside help: the
    // actor does not sit idle at a quiescent point with the request accepted
    for (tag, acc, q) in super::idle_after_accepted_stop(cx) {
        let waiting = ix.ops.iter().any(|o| o.tag == tag && matches!(o.op, OpK::Await | OpK::AwaitRef | OpK::Join | OpK::Halt | OpK::Consume) && o.b < q && o.e.map(|e| e > q).unwrap_or(true));
        if waiting {
            rep.fail(P, "R4", "waiter_stuck_after_accepted_stop", format!("actor tag {tag} accepted a stop request (returned at #{acc}) but is idle and alive at the quiescent point #{q} while an await / join on it is pending"), vec![acc, q]);
        }
    }
    rep.nontrivial = callers.len() >= 2 && kinds.len() >= 2;
}
