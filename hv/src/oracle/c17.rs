//! C17 OwningAddr hands back the final state exactly once.
use std::collections::HashMap;

use super::facts::facts;
use super::{Cx, Report};
use crate::index::TL;
use crate::log::*;

const P: &str = "C17";

pub fn check(cx: &Cx, rep: &mut Report) {
    let ix = cx.ix;
    let fx = facts(cx);
    let mut nontrivial = false;
    // expected final state per object from the handler log
    let mut state: HashMap<Uid, (u64, u64, Vec<Uid>)> = HashMap::new();
    for a in ix.actors.values() {
        for t in &a.timeline {
            if let TL::Inv(j) = t {
                let inv = &ix.invs[*j];
                if inv.out.is_some() {
                    let st = state.entry(inv.obj).or_insert((0, 0, vec![]));
                    st.0 += 1;
                    st.1 = mix(st.1, inv.msg);
                    st.2.push(inv.msg);
                }
            }
        }
    }
    for af in fx.values() {
        let Some(decl) = af.decl else { continue };
        if !decl.entry.owning() {
            continue;
        }
        // (L2 has no task-end events: there, graceful = the final stopped() returned and nothing failed)
        let graceful = !af.failed() && (cx.mt || matches!(af.task_end, Some((_, _, "done")))) && matches!(af.t_final(), Some((_, Some(_)))) && (!cx.mt || af.incs.last().map(|i| i.t.is_some()).unwrap_or(false));
        let t_out = af.t_final().and_then(|t| t.1);
        let joins: Vec<&crate::index::OpRec> = ix.ops.iter().filter(|o| o.tag == af.tag && matches!(o.op, OpK::Join | OpK::JoinPark | OpK::Consume) && o.executed()).collect();
        let mut somes = 0;
        let mut earlier_taken = false; // a previous join (completed or cancelled) may have taken the handle
        for o in &joins {
            match &o.res {
                Some(Res::Joined(Some(v))) => {
                    somes += 1;
                    nontrivial = true;
                    if !earlier_taken {
                        rep.premise("C17.R1.first_join_result");
                    }
                    // R1: after stopped() finished
                    rep.premise("C17.R1.join_after_stopped");
                    match t_out {
                        Some(t) if o.e.map(|e| e > t).unwrap_or(false) => {}
                        _ => rep.fail(P, "R1", "join_some_before_stopped", format!("{:?} c{}#{} yielded the actor at #{:?} but stopped() finished at {t_out:?}", o.op, o.c, o.i, o.e), vec![o.b]),
                    }
                    if !graceful {
                        rep.fail(P, "R1", "join_some_on_failed", format!("{:?} c{}#{} yielded Some although the actor failed", o.op, o.c, o.i), vec![o.b]);
                    }
                    // R2: final state
                    rep.premise("C17.R2.final_state");
                    let exp = state.get(&v.obj).cloned().unwrap_or((0, 0, vec![]));
                    let last_obj = af.incs.last().map(|i| i.obj);
                    if (exp.0, exp.1, &exp.2) != (v.seq, v.fold, &v.handled) || last_obj != Some(v.obj) {
                        rep.fail(P, "R2", "join_state_mismatch", format!("join yielded obj {} handled={:?}; handler log says obj {:?} handled={:?}", v.obj, v.handled, last_obj, exp.2), vec![o.b]);
                    }
                    earlier_taken = true;
                }
                Some(Res::Joined(None)) | Some(Res::Err(_)) => {
                    // R1: the first join driven to completion on a gracefully ended actor yields Some
                    if !earlier_taken && o.op == OpK::Join || (o.op == OpK::Consume && matches!(o.res, Some(Res::Err(e)) if e == "already_stopped") && !earlier_taken) {
                        rep.premise("C17.R1.first_join_result");
                        // concurrent joins (another join of this actor overlapping) make "first" ambiguous
                        let overlapping = joins.iter().any(|p| !std::ptr::eq(*p, *o) && p.b < o.e.unwrap_or(u64::MAX) && p.e.unwrap_or(u64::MAX) > o.b);
                        if graceful && !overlapping {
                            rep.fail(P, "R1", format!("first_join_none;op={:?}", o.op), format!("{:?} c{}#{} is the first join of tag {} driven to completion and the actor ended gracefully, but it yielded {:?}", o.op, o.c, o.i, af.tag, o.res), vec![o.b, o.e.unwrap_or(0)]);
                        }
                        if !graceful {
                            rep.premise("C17.R1.none_on_failed");
                        }
                    }
                    // a join must not resolve while the actor is still running
                    if o.op == OpK::Join && !earlier_taken {
                        if let (Some(e), Some((end, _, _))) = (o.e, af.task_end) {
                            let overlapping = joins.iter().any(|p| !std::ptr::eq(*p, *o) && p.b < e && p.e.unwrap_or(u64::MAX) > o.b);
                            if e < end && !overlapping {
                                rep.fail(P, "R1", "join_none_before_termination", format!("join c{}#{} resolved None at #{e} before the actor task ended at #{end}", o.c, o.i), vec![o.b, e]);
                            }
                        }
                    }
                    earlier_taken = true;
                }
                Some(Res::Cancelled) => earlier_taken = true,
                // a parked join future may already have taken the task handle
                // (one that was never polled has not: the handle is taken on the first poll)
                Some(Res::Handle { .. }) if o.op == OpK::JoinPark => {
                    if o.arg >= 1 {
                        earlier_taken = true
                    } else {
                        rep.premise("C17.R3.unpolled_join_takes_nothing");
                    }
                }
                None => {
                    // R4: every join resolves once the actor has terminated
                    rep.premise("C17.R4.join_resolves");
                    if let Some((end, _, _)) = af.task_end {
                        rep.fail(P, "R4", format!("join_hangs;op={:?}", o.op), format!("{:?} c{}#{} still pending at the end although the actor task ended at #{end}", o.op, o.c, o.i), vec![o.b, end]);
                    }
                }
                _ => {}
            }
            if o.e.is_some() {
                rep.premise("C17.R4.join_resolves");
            }
        }
        // R7: `consume()` is lazy: a consume future that has not been polled has neither requested a stop nor given up
        // the owning handle, so until its first poll the actor runs on (unless something else ends it)
        for p in ix.ops.iter().filter(|o| o.tag == af.tag && o.op == OpK::ConsumePark && matches!(o.res, Some(Res::Handle { some: true, .. }))) {
            let Some(Res::Handle { slot, .. }) = p.res else { continue };
            let first_poll = ix.ops.iter().find(|o| o.c == p.c && o.i > p.i && o.op == OpK::Consume && o.slot == slot && o.arg == 1).map(|o| o.b).unwrap_or(u64::MAX);
            rep.premise("C17.R7.unpolled_consume_does_nothing");
            nontrivial = true;
            if af.failed() || af.is_child {
                continue;
            }
            let Some((t_in, _)) = af.t_final() else { continue };
            if t_in <= p.b || t_in >= first_poll {
                continue;
            }
            let other_cause = af.stops.iter().any(|s| s.accepted && s.b < t_in) || af.stream_end.map(|s| s < t_in).unwrap_or(false) || ix.phase("reap").map(|r| r < t_in).unwrap_or(false);
            let restarted = af.incs.len() > 1;
            // (the future itself, or another strong handle, is still held: not a last-drop termination)
            if !other_cause && !restarted && af.count_at(t_in) > 0 {
                rep.fail(P, "R7", "stopped_by_unpolled_consume", format!("actor tag {} began stopped() at #{t_in}: after consume() was called at #{} but before the returned future was first polled ({}), and nothing else had stopped it", af.tag, p.b, if first_poll == u64::MAX { "never".to_string() } else { format!("#{first_poll}") }), vec![p.b, t_in]);
            }
        }
        // R1 (cont.): until the actor's task has ended its mailbox takes a (redundant) stop request, so a consume that
        // begins before that moment is not refused at its `stop()` - also while the actor is inside a slow `stopped()`
        if let (Some((end, _, _)), false) = (af.task_end, cx.mt) {
            for o in ix.ops.iter().filter(|o| o.tag == af.tag && matches!(o.op, OpK::Consume | OpK::ConsumeSync) && o.executed() && o.b < end) {
                rep.premise("C17.R1.consume_not_refused_before_termination");
                if let Some(Res::Err(e)) = &o.res {
                    if *e != "already_stopped" {
                        rep.fail(P, "R1", format!("consume_refused_before_termination;err={e}"), format!("{:?} c{}#{} begun at #{} was refused with {e} although the actor's task only ended at #{end}", o.op, o.c, o.i, o.b), vec![o.b, end]);
                    }
                }
            }
        }
        // R3: at most one Some
        rep.premise("C17.R3.at_most_once");
        if somes > 1 {
            rep.fail(P, "R3", "actor_handed_out_twice", format!("actor tag {} was handed out by {somes} joins", af.tag), joins.iter().map(|o| o.b).collect());
        }
        // R6: detach leaves the actor unaffected: no termination event between detach and the next
        // termination cause
        for d in ix.ops.iter().filter(|o| !af.is_child && o.tag == af.tag && o.op == OpK::Detach && matches!(o.res, Some(Res::Handle { some: true, .. }))) {
            rep.premise("C17.R6.detach_keeps_running");
            nontrivial = true;
            let r = d.e.unwrap_or(u64::MAX);
            let cause = af.first_term_cause();
            if let Some((t_in, _)) = af.t_final() {
                let terminating = af.task_end.is_some();
                if terminating && !af.failed() && t_in > d.b && cause.map(|c| c > t_in).unwrap_or(true) {
                    rep.fail(P, "R6", "terminated_after_detach_without_cause", format!("actor tag {} terminated at #{t_in} after detach at #{r} without stop / last drop", af.tag), vec![r, t_in]);
                }
            }
            if af.failed() && af.task_end.map(|e| e.2 == "cancelled").unwrap_or(false) && !cx.prog.cancel.is_some() {
                rep.fail(P, "R6", "cancelled_by_detach", format!("actor tag {} was cancelled", af.tag), vec![r]);
            }
        }
    }
    // the final state handed out is the final state *under the restart strategy the actor was built with*: an owning
    // spawn of a recreate-from-default / non-restartable actor keeps that strategy (the evidence of C07.R3)
    let mut sub = Report::default();
    super::c07::check(cx, &mut sub);
    for v in sub.violations.into_iter().filter(|v| v.rule == "R3" && (v.sig.starts_with("recreate_kept") || v.sig.starts_with("restart_only_changed") || v.sig.starts_with("non_restartable_restarted") || v.sig.starts_with("state;"))) {
        let owning = fx.values().any(|af| af.decl.map(|d| d.entry.owning()).unwrap_or(false) && (v.msg.contains(&format!("actor tag {} ", af.tag)) || v.msg.contains(&format!("actor tag {}:", af.tag))));
        if owning {
            rep.premise("C17.R2.strategy_kept_by_owning_spawn");
            rep.fail(P, "R2", format!("c07:{}", v.sig), v.msg, v.at);
        }
    }
    if fx.values().any(|af| af.decl.map(|d| d.entry.owning() && d.entry.builder() && d.strategy != crate::prog::Strategy::RestartOnly).unwrap_or(false) && af.incs.len() > 1) {
        rep.premise("C17.R2.strategy_kept_by_owning_spawn");
    }
    // "Otherwise an OwningAddr behaves as a strong handle" - and a join future is *not* one: an actor whose last
    // strong handle was dropped terminates (and its joins resolve) although join futures are still pending
    // (the evidence of C05.R2, for actors spawned through an owning entry point that had a join requested)
    let mut sub = Report::default();
    super::c05::check(cx, &mut sub);
    for v in sub.violations.into_iter().filter(|v| v.rule == "R2" && (v.sig == "alive_after_last_drop" || v.sig == "idle_alive_without_strong_handles")) {
        let owning_with_join = fx.values().any(|af| {
            af.decl.map(|d| d.entry.owning()).unwrap_or(false)
                && v.msg.contains(&format!("actor tag {} ", af.tag)) | v.msg.contains(&format!("actor tag {}:", af.tag))
                && ix.ops.iter().any(|o| o.tag == af.tag && matches!(o.op, OpK::Join | OpK::JoinPark | OpK::ConsumeSync) && o.executed())
        });
        if owning_with_join {
            rep.fail(P, "R4", format!("c05:{}", v.sig), v.msg, v.at);
        }
    }
    rep.nontrivial = nontrivial;
}
