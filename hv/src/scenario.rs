//! Scenario runner for L1: one program, one seeded schedule, one trace.
use std::sync::Arc;
use std::sync::atomic::Ordering;

use crate::actors;
use crate::dynh::{spawn_decl, spec_of};
use crate::interp::{H, Slot};
#[cfg(any(feature = "l1", feature = "mt"))]
use crate::interp::{Env, run_client};
use crate::log::{self, K};
#[cfg(any(feature = "l1", feature = "mt"))]
use crate::log::Ev;
use crate::prog::*;
#[cfg(any(feature = "l1", feature = "mt"))]
use crate::vexec::{self, CancelPlan, Exec, Outcome, Policy, TaskInfo, UNIT};

#[cfg(any(feature = "l1", feature = "mt"))]
#[derive(Clone, Copy, Debug)]
pub struct RunCfg {
    pub seed: u64,
    pub policy: Policy,
    pub spurious_permille: u32,
    pub max_steps: u64,
}

#[cfg(any(feature = "l1", feature = "mt"))]
pub struct Trace {
    pub events: Vec<Ev>,
    pub clients_outcome: Outcome,
    pub settle_outcome: Outcome,
    pub cleanup_outcome: Outcome,
    pub census: Vec<TaskInfo>,
    pub steps: u64,
    pub decisions: u64,
    pub multi_choice: u64,
    pub horizon_units: u64,
    pub clients_started: u32,
    pub clients_done: u32,
    /// per tag: the kinds of callback entries in order (fault positions)
    pub cb_kinds: std::collections::BTreeMap<u32, Vec<&'static str>>,
}

#[cfg(any(feature = "l1", feature = "mt"))]
impl Trace {
    pub fn inconclusive(&self) -> bool {
        self.clients_outcome == Outcome::StepCap
            || self.settle_outcome == Outcome::StepCap
            || self.cleanup_outcome == Outcome::StepCap
    }
}

#[cfg(feature = "l1")]
pub fn spawn_client(fut: futures::future::LocalBoxFuture<'static, ()>) {
    vexec::spawn_local("client", fut);
}

#[cfg(all(not(feature = "l1"), not(feature = "mt")))]
pub fn spawn_client(_fut: futures::future::LocalBoxFuture<'static, ()>) {
    panic!("Fork is not supported on the xrt engine");
}

#[cfg(all(feature = "mt", not(feature = "l1")))]
thread_local! {
    static FORKS: std::cell::RefCell<Vec<futures::future::LocalBoxFuture<'static, ()>>> = const { std::cell::RefCell::new(Vec::new()) };
}

/// L2: a forked client runs on the forking client's OS thread after that client has finished
#[cfg(all(feature = "mt", not(feature = "l1")))]
pub fn spawn_client(fut: futures::future::LocalBoxFuture<'static, ()>) {
    FORKS.with(|f| f.borrow_mut().push(fut));
}

pub type Reaper = Vec<(u32, Box<dyn crate::dynh::DynWeak>)>;

/// spawn the setup actors and lay out the clients' slot tables:
/// slots [0, nact) = Addr of actor a, [nact, 2 nact) = OwningAddr of actor a
pub fn setup_tables(prog: &Program) -> (Vec<Vec<Slot>>, Reaper) {
    let nclients = prog.clients.len();
    let nact = prog.actors.len();
    let mut reaper: Reaper = vec![];
    let mut tables: Vec<Vec<Slot>> = (0..nclients).map(|_| (0..2 * nact).map(|_| Slot::empty()).collect()).collect();
    for (ai, d) in prog.actors.iter().enumerate() {
        if !d.at_setup {
            continue;
        }
        let sp = spawn_decl(d);
        if let Some(a) = &sp.addr {
            reaper.push((d.tag, a.downgrade()));
            for h in &d.holders {
                if let Some(t) = tables.get_mut(*h as usize) {
                    t[ai] = Slot::mk(H::Addr(a.clone_box()), d.tag, *h);
                }
            }
        }
        if let Some(o) = sp.owning {
            if let Some(t) = tables.get_mut(d.owner as usize) {
                t[nact + ai] = Slot::mk(H::Owning(o), d.tag, d.owner);
            }
        }
        drop(sp.addr);
    }
    (tables, reaper)
}

pub fn decl_defaults(prog: &Program) {
    for d in &prog.defaults {
        let spec = spec_of(d);
        actors::register_spec(Arc::clone(&spec));
        actors::set_default_spec(d.k as usize, spec);
    }
}

pub async fn cleanup(topics: Vec<u8>) {
    use crate::actors::{Probe, Topic};
    use hannibal::{Addr, Broker};
    if let Some(mut a) = Addr::<Probe<1>>::unregister().await {
        let _ = a.stop();
    }
    if let Some(mut a) = Addr::<Probe<2>>::unregister().await {
        let _ = a.stop();
    }
    let _ = topics;
    if let Some(mut a) = Addr::<Broker<Topic<0>>>::unregister().await {
        let _ = a.stop();
    }
    if let Some(mut a) = Addr::<Broker<Topic<1>>>::unregister().await {
        let _ = a.stop();
    }
}

#[cfg(feature = "l1")]
pub fn run_l1(prog: &Program, cfg: RunCfg) -> Trace {
    log::reset();
    actors::reset_globals();
    decl_defaults(prog);
    actors::set_faults(
        prog.faults
            .iter()
            .map(|(tag, nth, panic)| actors::FaultPlan {
                tag: *tag,
                nth: *nth,
                kind: if *panic { actors::FaultKind::Panic } else { actors::FaultKind::Err },
            })
            .collect(),
    );
    let horizon_units = prog.total_duration() * 2 + 64;
    let horizon = horizon_units * UNIT;
    let mut exec = Exec::new(cfg.seed, cfg.policy, 400);
    exec.spurious_permille = cfg.spurious_permille;
    exec.cancel = prog.cancel.map(|(n, j)| CancelPlan { actor_task_nth: n, after_polls: j });

    log::log(K::Phase("setup"));
    let (tables, mut reaper) = setup_tables(prog);
    let env = Env::new(prog.clone());
    log::log(K::Phase("clients"));
    for (c, (ops, table)) in prog.clients.iter().cloned().zip(tables).enumerate() {
        env.clients_started.fetch_add(1, Ordering::SeqCst);
        spawn_client(run_client(Arc::clone(&env), c as u16, ops, table));
    }
    let e2 = Arc::clone(&env);
    let clients_outcome = exec.run(horizon, cfg.max_steps, move || e2.all_done());
    log::log(K::Phase(match clients_outcome {
        Outcome::Until => "clients_done",
        Outcome::Quiescent => "clients_stuck_quiescent",
        Outcome::Horizon => "clients_stuck_horizon",
        Outcome::StepCap => "step_cap",
    }));
    // reap: if clients are stuck (e.g. awaiting an actor nobody stops), stop every actor through the
    // weak handles kept at setup and give the clients another chance to finish
    if clients_outcome != Outcome::Until && clients_outcome != Outcome::StepCap {
        log::log(K::Phase("reap"));
        let mut extra = std::mem::take(&mut *env.reaper.lock().unwrap_or_else(|e| e.into_inner()));
        for (tag, w) in reaper.iter_mut().chain(extra.iter_mut()) {
            log::log(K::Effect { msg: 0, actor: u32::MAX, step: 0, what: "reap_begin", arg: *tag as u64, ok: true });
            let ok = w.try_stop().is_ok();
            log::log(K::Effect { msg: 0, actor: u32::MAX, step: 0, what: "reap_stop", arg: *tag as u64, ok });
        }
        drop(extra);
        let e3 = Arc::clone(&env);
        let now = exec.sh.now();
        let o = exec.run(now + horizon, cfg.max_steps, move || e3.all_done());
        log::log(K::Phase(match o {
            Outcome::Until => "reap_clients_done",
            _ => "reap_clients_stuck",
        }));
    }
    drop(reaper);
    env.reaper.lock().unwrap_or_else(|e| e.into_inner()).clear();
    // settle: let actors drain (bounded by the horizon)
    let now = exec.sh.now();
    let settle_outcome = exec.run(now + horizon, cfg.max_steps, || false);
    log::log(K::Phase("settled"));
    // cleanup: unregister + stop services and brokers, then run to quiescence
    let topics = prog.topics.clone();
    vexec::spawn_local("cleanup", Box::pin(cleanup(topics)));
    let now = exec.sh.now();
    let cleanup_outcome = exec.run(now.max(horizon) + 64 * UNIT, cfg.max_steps, || false);
    log::log(K::Phase("end"));
    let census = exec.census();
    let cb_kinds: std::collections::BTreeMap<u32, Vec<&'static str>> =
        prog.actors.iter().chain(prog.defaults.iter()).map(|d| (d.tag, actors::cb_kinds(d.tag))).collect();
    let (steps, decisions, multi_choice) = (exec.steps, exec.decisions, exec.multi_choice);
    let clients_started = env.clients_started.load(Ordering::SeqCst);
    let clients_done = env.clients_done.load(Ordering::SeqCst);
    drop(env);
    drop(exec);
    // safety net: whatever happened above, leave the process-global registry clean
    futures::executor::block_on(cleanup(vec![]));
    let events = log::take();
    Trace {
        events,
        clients_outcome,
        settle_outcome,
        cleanup_outcome,
        census,
        steps,
        decisions,
        multi_choice,
        horizon_units,
        clients_started,
        clients_done,
        cb_kinds,
    }
}

#[cfg(feature = "l1")]
pub fn run(prog: &Program, cfg: RunCfg) -> Trace {
    run_l1(prog, cfg)
}

#[cfg(all(feature = "mt", not(feature = "l1")))]
pub fn run(prog: &Program, cfg: RunCfg) -> Trace {
    run_mt(prog, cfg)
}

/// L2: the same program on a real multi-threaded tokio runtime (hooks off).  Every client is an OS thread doing
/// `Handle::block_on`, so clients race the runtime's workers with true parallelism.  Seeded micro-delays come from
/// the programs themselves (yields, short sleeps).  A watchdog makes the whole scenario inconclusive.
#[cfg(all(feature = "mt", not(feature = "l1")))]
pub fn run_mt(prog: &Program, cfg: RunCfg) -> Trace {
    use std::sync::atomic::AtomicBool;
    use std::sync::{Barrier, Mutex, mpsc};
    use std::time::{Duration, Instant};
    log::reset();
    actors::reset_globals();
    decl_defaults(prog);
    actors::set_faults(
        prog.faults
            .iter()
            .map(|(tag, nth, panic)| actors::FaultPlan { tag: *tag, nth: *nth, kind: if *panic { actors::FaultKind::Panic } else { actors::FaultKind::Err } })
            .collect(),
    );
    crate::rt::reset_clock();
    let workers = [2usize, 4, 8][(cfg.seed % 3) as usize];
    let rt = tokio::runtime::Builder::new_multi_thread().worker_threads(workers).enable_all().build().expect("tokio runtime");
    let env = Env::new(prog.clone());
    let n = prog.clients.len();
    let nact = prog.actors.len();
    log::log(K::Phase("setup"));
    let mut txs = vec![];
    let mut rxs = vec![];
    for _ in 0..n {
        let (tx, rx) = mpsc::channel::<(usize, Box<dyn crate::dynh::DynAddr>)>();
        txs.push(tx);
        rxs.push(Some(rx));
    }
    let barrier = Arc::new(Barrier::new(n + 1));
    let reaper: Arc<Mutex<Reaper>> = Arc::new(Mutex::new(vec![]));
    let done = Arc::new(std::sync::atomic::AtomicU32::new(0));
    let started_flag = Arc::new(AtomicBool::new(false));
    let mut threads = vec![];
    for c in 0..n {
        let prog = prog.clone();
        let env = Arc::clone(&env);
        let txs = txs.clone();
        let rx = rxs[c].take().expect("rx");
        let barrier = Arc::clone(&barrier);
        let reaper = Arc::clone(&reaper);
        let done = Arc::clone(&done);
        let handle = rt.handle().clone();
        threads.push(std::thread::spawn(move || {
            let _g = handle.enter();
            let mut table: Vec<Slot> = (0..2 * nact).map(|_| Slot::empty()).collect();
            for (ai, d) in prog.actors.iter().enumerate() {
                let owner = if (d.owner as usize) < n { d.owner as usize } else { 0 };
                if !d.at_setup || owner != c {
                    continue;
                }
                let sp = spawn_decl(d);
                if let Some(a) = &sp.addr {
                    reaper.lock().unwrap_or_else(|e| e.into_inner()).push((d.tag, a.downgrade()));
                    for h in &d.holders {
                        if *h as usize == c {
                            table[ai] = Slot::mk(H::Addr(a.clone_box()), d.tag, *h);
                        } else if let Some(tx) = txs.get(*h as usize) {
                            let _ = tx.send((ai, a.clone_box()));
                        }
                    }
                }
                if let Some(o) = sp.owning {
                    table[nact + ai] = Slot::mk(H::Owning(o), d.tag, c as u16);
                }
                drop(sp.addr);
            }
            drop(txs);
            barrier.wait();
            while let Ok((ai, a)) = rx.try_recv() {
                let tag = prog.actors[ai].tag;
                table[ai] = Slot::mk(H::Addr(a), tag, c as u16);
            }
            barrier.wait();
            env.clients_started.fetch_add(1, Ordering::SeqCst);
            handle.block_on(run_client(Arc::clone(&env), c as u16, prog.clients[c].clone(), table));
            loop {
                let next = FORKS.with(|f| f.borrow_mut().pop());
                match next {
                    Some(f) => handle.block_on(f),
                    None => break,
                }
            }
            done.fetch_add(1, Ordering::SeqCst);
        }));
    }
    drop(txs);
    barrier.wait();
    barrier.wait();
    started_flag.store(true, Ordering::SeqCst);
    log::log(K::Phase("clients"));
    // monitor: reap when nothing happens although clients are pending; watchdog when even that does not help
    let t0 = Instant::now();
    let progress = || log::CLIENT_EVENTS.load(Ordering::Relaxed);
    let mut last_len = progress();
    let mut last_change = Instant::now();
    let mut reaped = false;
    let mut clients_outcome = Outcome::Until;
    loop {
        if done.load(Ordering::SeqCst) as usize >= n {
            break;
        }
        std::thread::sleep(Duration::from_micros(300));
        let l = progress();
        if l != last_len {
            last_len = l;
            last_change = Instant::now();
        }
        if !reaped && last_change.elapsed() > Duration::from_millis(300) {
            reaped = true;
            log::log(K::Phase("reap"));
            let _g = rt.enter();
            let mut extra = std::mem::take(&mut *env.reaper.lock().unwrap_or_else(|e| e.into_inner()));
            for (tag, w) in reaper.lock().unwrap_or_else(|e| e.into_inner()).iter_mut().chain(extra.iter_mut()) {
                log::log(K::Effect { msg: 0, actor: u32::MAX, step: 0, what: "reap_begin", arg: *tag as u64, ok: true });
                let ok = w.try_stop().is_ok();
                log::log(K::Effect { msg: 0, actor: u32::MAX, step: 0, what: "reap_stop", arg: *tag as u64, ok });
            }
            last_change = Instant::now();
        }
        if (reaped && last_change.elapsed() > Duration::from_secs(5)) || t0.elapsed() > Duration::from_secs(30) {
            clients_outcome = Outcome::StepCap; // watchdog: inconclusive
            break;
        }
    }
    log::log(K::Phase(if clients_outcome == Outcome::Until { "clients_done" } else { "step_cap" }));
    if clients_outcome == Outcome::Until {
        for t in threads {
            let _ = t.join();
        }
    }
    reaper.lock().unwrap_or_else(|e| e.into_inner()).clear();
    env.reaper.lock().unwrap_or_else(|e| e.into_inner()).clear();
    let quiet = |ms: u64, max_ms: u64| {
        let t = Instant::now();
        let mut last = log::NONTICK_EVENTS.load(Ordering::Relaxed);
        let mut since = Instant::now();
        while t.elapsed() < Duration::from_millis(max_ms) {
            std::thread::sleep(Duration::from_micros(500));
            let l = log::NONTICK_EVENTS.load(Ordering::Relaxed);
            if l != last {
                last = l;
                since = Instant::now();
            } else if since.elapsed() > Duration::from_millis(ms) {
                break;
            }
        }
    };
    quiet(15, 3000);
    log::log(K::Phase("settled"));
    // bounded: after a watchdog the registry lock may be held for good
    let cleaned = rt.block_on(async { tokio::time::timeout(Duration::from_secs(10), cleanup(vec![])).await.is_ok() });
    if !cleaned {
        clients_outcome = Outcome::StepCap;
    }
    quiet(5, 1000);
    log::log(K::Phase("end"));
    let clients_started = env.clients_started.load(Ordering::SeqCst);
    let clients_done = env.clients_done.load(Ordering::SeqCst);
    let cb_kinds = prog.actors.iter().chain(prog.defaults.iter()).map(|d| (d.tag, actors::cb_kinds(d.tag))).collect();
    drop(env);
    rt.shutdown_timeout(Duration::from_millis(200));
    let events = log::take();
    if clients_outcome != Outcome::Until {
        // client threads may be blocked for good: the process cannot safely run further scenarios
        eprintln!("L2 watchdog fired: leaving the shard");
    }
    Trace {
        events,
        clients_outcome,
        settle_outcome: Outcome::Quiescent,
        cleanup_outcome: Outcome::Quiescent,
        census: vec![],
        steps: 0,
        decisions: 0,
        multi_choice: 0,
        horizon_units: 0,
        clients_started,
        clients_done,
        cb_kinds,
    }
}
