//! Scenario runner for L1: one program, one seeded schedule, one trace.
use std::sync::Arc;
use std::sync::atomic::Ordering;

use crate::actors;
use crate::dynh::{spawn_decl, spec_of};
use crate::interp::{H, Slot};
#[cfg(any(feature = "l1", feature = "mt"))]
use crate::interp::{Env, run_client};
use crate::log::{self, K};
#[cfg(any(feature = "l1", feature = "mt"))]
use crate::log::Ev;
use crate::prog::*;
#[cfg(any(feature = "l1", feature = "mt"))]
use crate::vexec::{self, CancelPlan, Exec, Outcome, Policy, TaskInfo, UNIT};

#[cfg(any(feature = "l1", feature = "mt"))]
#[derive(Clone, Copy, Debug)]
pub struct RunCfg {
    pub seed: u64,
    pub policy: Policy,
    pub spurious_permille: u32,
    pub max_steps: u64,
}

#[cfg(any(feature = "l1", feature = "mt"))]
pub struct Trace {
    pub events: Vec<Ev>,
    pub clients_outcome: Outcome,
    pub settle_outcome: Outcome,
    pub cleanup_outcome: Outcome,
    pub census: Vec<TaskInfo>,
    pub steps: u64,
    pub decisions: u64,
    pub multi_choice: u64,
    pub horizon_units: u64,
    pub clients_started: u32,
    pub clients_done: u32,
    /// per tag: the kinds of callback entries in order (fault positions)
    pub cb_kinds: std::collections::BTreeMap<u32, Vec<&'static str>>,
}

#[cfg(any(feature = "l1", feature = "mt"))]
impl Trace {
    pub fn inconclusive(&self) -> bool {
        self.clients_outcome == Outcome::StepCap
            || self.settle_outcome == Outcome::StepCap
            || self.cleanup_outcome == Outcome::StepCap
    }
}

#[cfg(feature = "l1")]
pub fn spawn_client(fut: futures::future::LocalBoxFuture<'static, ()>) {
    vexec::spawn_local("client", fut);
}

#[cfg(not(feature = "l1"))]
pub fn spawn_client(_fut: futures::future::LocalBoxFuture<'static, ()>) {
    panic!("Fork is only supported on the L1 engine");
}

pub type Reaper = Vec<(u32, Box<dyn crate::dynh::DynWeak>)>;

/// spawn the setup actors and lay out the clients' slot tables:
/// slots [0, nact) = Addr of actor a, [nact, 2 nact) = OwningAddr of actor a
pub fn setup_tables(prog: &Program) -> (Vec<Vec<Slot>>, Reaper) {
    let nclients = prog.clients.len();
    let nact = prog.actors.len();
    let mut reaper: Reaper = vec![];
    let mut tables: Vec<Vec<Slot>> = (0..nclients).map(|_| (0..2 * nact).map(|_| Slot::empty()).collect()).collect();
    for (ai, d) in prog.actors.iter().enumerate() {
        if !d.at_setup {
            continue;
        }
        let sp = spawn_decl(d);
        if let Some(a) = &sp.addr {
            reaper.push((d.tag, a.downgrade()));
            for h in &d.holders {
                if let Some(t) = tables.get_mut(*h as usize) {
                    t[ai] = Slot::mk(H::Addr(a.clone_box()), d.tag, *h);
                }
            }
        }
        if let Some(o) = sp.owning {
            if let Some(t) = tables.get_mut(d.owner as usize) {
                t[nact + ai] = Slot::mk(H::Owning(o), d.tag, d.owner);
            }
        }
        drop(sp.addr);
    }
    (tables, reaper)
}

pub fn decl_defaults(prog: &Program) {
    for d in &prog.defaults {
        let spec = spec_of(d);
        actors::register_spec(Arc::clone(&spec));
        actors::set_default_spec(d.k as usize, spec);
    }
}

pub async fn cleanup(topics: Vec<u8>) {
    use crate::actors::{Probe, Topic};
    use hannibal::{Addr, Broker};
    if let Some(mut a) = Addr::<Probe<1>>::unregister().await {
        let _ = a.stop();
    }
    if let Some(mut a) = Addr::<Probe<2>>::unregister().await {
        let _ = a.stop();
    }
    let _ = topics;
    if let Some(mut a) = Addr::<Broker<Topic<0>>>::unregister().await {
        let _ = a.stop();
    }
    if let Some(mut a) = Addr::<Broker<Topic<1>>>::unregister().await {
        let _ = a.stop();
    }
}

#[cfg(feature = "l1")]
pub fn run_l1(prog: &Program, cfg: RunCfg) -> Trace {
    log::reset();
    actors::reset_globals();
    decl_defaults(prog);
    actors::set_faults(
        prog.faults
            .iter()
            .map(|(tag, nth, panic)| actors::FaultPlan {
                tag: *tag,
                nth: *nth,
                kind: if *panic { actors::FaultKind::Panic } else { actors::FaultKind::Err },
            })
            .collect(),
    );
    let horizon_units = prog.total_duration() * 2 + 64;
    let horizon = horizon_units * UNIT;
    let mut exec = Exec::new(cfg.seed, cfg.policy, 400);
    exec.spurious_permille = cfg.spurious_permille;
    exec.cancel = prog.cancel.map(|(n, j)| CancelPlan { actor_task_nth: n, after_polls: j });

    log::log(K::Phase("setup"));
    let (tables, mut reaper) = setup_tables(prog);
    let env = Env::new(prog.clone());
    log::log(K::Phase("clients"));
    for (c, (ops, table)) in prog.clients.iter().cloned().zip(tables).enumerate() {
        env.clients_started.fetch_add(1, Ordering::SeqCst);
        spawn_client(run_client(Arc::clone(&env), c as u16, ops, table));
    }
    let e2 = Arc::clone(&env);
    let clients_outcome = exec.run(horizon, cfg.max_steps, move || e2.all_done());
    log::log(K::Phase(match clients_outcome {
        Outcome::Until => "clients_done",
        Outcome::Quiescent => "clients_stuck_quiescent",
        Outcome::Horizon => "clients_stuck_horizon",
        Outcome::StepCap => "step_cap",
    }));
    // reap: if clients are stuck (e.g. awaiting an actor nobody stops), stop every actor through the
    // weak handles kept at setup and give the clients another chance to finish
    if clients_outcome != Outcome::Until && clients_outcome != Outcome::StepCap {
        log::log(K::Phase("reap"));
        for (tag, w) in reaper.iter_mut() {
            let ok = w.try_stop().is_ok();
            log::log(K::Effect { msg: 0, actor: u32::MAX, step: 0, what: "reap_stop", arg: *tag as u64, ok });
        }
        let e3 = Arc::clone(&env);
        let now = exec.sh.now();
        let o = exec.run(now + horizon, cfg.max_steps, move || e3.all_done());
        log::log(K::Phase(match o {
            Outcome::Until => "reap_clients_done",
            _ => "reap_clients_stuck",
        }));
    }
    drop(reaper);
    // settle: let actors drain (bounded by the horizon)
    let now = exec.sh.now();
    let settle_outcome = exec.run(now + horizon, cfg.max_steps, || false);
    log::log(K::Phase("settled"));
    // cleanup: unregister + stop services and brokers, then run to quiescence
    let topics = prog.topics.clone();
    vexec::spawn_local("cleanup", Box::pin(cleanup(topics)));
    let now = exec.sh.now();
    let cleanup_outcome = exec.run(now.max(horizon) + 64 * UNIT, cfg.max_steps, || false);
    log::log(K::Phase("end"));
    let census = exec.census();
    let cb_kinds: std::collections::BTreeMap<u32, Vec<&'static str>> =
        prog.actors.iter().chain(prog.defaults.iter()).map(|d| (d.tag, actors::cb_kinds(d.tag))).collect();
    let (steps, decisions, multi_choice) = (exec.steps, exec.decisions, exec.multi_choice);
    let clients_started = env.clients_started.load(Ordering::SeqCst);
    let clients_done = env.clients_done.load(Ordering::SeqCst);
    drop(env);
    drop(exec);
    // safety net: whatever happened above, leave the process-global registry clean
    futures::executor::block_on(cleanup(vec![]));
    let events = log::take();
    Trace {
        events,
        clients_outcome,
        settle_outcome,
        cleanup_outcome,
        census,
        steps,
        decisions,
        multi_choice,
        horizon_units,
        clients_started,
        clients_done,
        cb_kinds,
    }
}

#[cfg(feature = "l1")]
pub fn run(prog: &Program, cfg: RunCfg) -> Trace {
    run_l1(prog, cfg)
}
