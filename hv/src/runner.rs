//! Shard runner: generates cases, executes them on L1, evaluates the property's oracle,
//! writes a JSON result (merged by the python driver) and witness files for violations.
use std::collections::{BTreeMap, BTreeSet};
use std::fmt::Write as _;
use std::time::Instant;

use crate::index::Index;
use crate::log::{self, mix};
use crate::oracle::{self, Cx, Report};
use crate::prog::Program;
use crate::rng::Rng;
use crate::scenario::{self, RunCfg, Trace};
use crate::vexec::Policy;

pub type GenFn = fn(&mut Rng) -> Program;

pub fn profile(name: &str) -> GenFn {
    crate::families::profile(name).unwrap_or_else(|| panic!("unknown profile {name}"))
}

fn hash_str(s: &str) -> u64 {
    let mut h = 0u64;
    for b in s.bytes() {
        h = mix(h, b as u64);
    }
    h
}

pub fn case_seed(seed: u64, profile: &str, k: u64) -> u64 {
    mix(mix(seed, hash_str(profile)), k)
}

pub fn cfg_for(cs: u64, thorough: bool) -> RunCfg {
    let mut r = Rng::new(cs ^ 0xabcdef);
    let policy = match r.below(8) {
        0..=2 => Policy::Uniform,
        3 => Policy::Pct(1),
        4 => Policy::Pct(3),
        5 => Policy::FifoK(3),
        6 => Policy::LifoK(3),
        _ => Policy::FifoK(0),
    };
    let spurious_permille = if thorough && r.below(4) == 0 { 20 } else { 0 };
    RunCfg { seed: cs, policy, spurious_permille, max_steps: 300_000 }
}

pub fn jstr(s: &str) -> String {
    let mut o = String::with_capacity(s.len() + 2);
    o.push('"');
    for ch in s.chars() {
        match ch {
            '"' => o.push_str("\\\""),
            '\\' => o.push_str("\\\\"),
            '\n' => o.push_str("\\n"),
            '\t' => o.push_str("\\t"),
            c if (c as u32) < 0x20 => {
                let _ = write!(o, "\\u{:04x}", c as u32);
            }
            c => o.push(c),
        }
    }
    o.push('"');
    o
}

pub fn trace_hash(tr: &Trace) -> u64 {
    let mut h = 0u64;
    for e in &tr.events {
        h = mix(h, hash_str(&format!("{:?}", e.k)));
        h = mix(h, e.vt);
    }
    h
}

pub fn run_case(prop: &str, gen_: GenFn, cs: u64, thorough: bool) -> (Program, Trace, Report) {
    let mut rng = Rng::new(cs);
    let mut prog = gen_(&mut rng);
    prog.one_default_spawn_per_type();
    run_prog(prop, prog, cs, thorough)
}

/// all single faults (and, if `pairs`, a sample of ordered pairs on different actors) for `prog`, given its
/// fault-free trace under the same schedule seed: (kind x position) = panic at every callback entry of every
/// victim, Err at every started entry, cancellation after every poll of the victim's loop task
pub fn expand_faults(prog: &Program, tr: &Trace, pairs: bool, rng: &mut Rng) -> Vec<(Program, String)> {
    let ix = Index::build(&tr.events);
    let mut singles: Vec<(Program, String, u32)> = vec![];
    let victims: Vec<u32> = prog.actors.iter().chain(prog.defaults.iter()).map(|d| d.tag).filter(|t| prog.actors.len() <= 3 || *t <= 2 || *t >= 9000).collect();
    for tag in &victims {
        let kinds = tr.cb_kinds.get(tag).cloned().unwrap_or_default();
        for (k, kind) in kinds.iter().enumerate() {
            let mut p = prog.clone();
            p.faults.push((*tag, k as u32, true));
            singles.push((p, format!("panic@{kind}"), *tag));
            if *kind == "started" {
                let mut p = prog.clone();
                p.faults.push((*tag, k as u32, false));
                singles.push((p, "err@started".to_string(), *tag));
            }
        }
        // cancellation: after each poll of the victim's loop task (unique-task tags only)
        if let Some(task) = ix.task_of(*tag) {
            let nth = tr.census[..task as usize].iter().filter(|t| t.kind == "actor").count() as u32;
            let polls = tr.census[task as usize].polls;
            for j in 1..polls {
                let mut p = prog.clone();
                p.cancel = Some((nth, j));
                singles.push((p, "cancel@poll".to_string(), *tag));
            }
        }
    }
    let mut out: Vec<(Program, String)> = singles.iter().map(|(p, l, _)| (p.clone(), l.clone())).collect();
    if pairs && singles.len() >= 2 {
        let n = singles.len().min(24);
        for _ in 0..n {
            let a = &singles[rng.below(singles.len() as u64) as usize];
            let b = &singles[rng.below(singles.len() as u64) as usize];
            if a.2 == b.2 {
                continue;
            }
            let mut p = a.0.clone();
            p.faults.extend(b.0.faults.iter().cloned());
            if p.cancel.is_none() {
                p.cancel = b.0.cancel;
            }
            out.push((p, format!("pair:{}+{}", a.1, b.1)));
        }
    }
    out
}

pub fn run_prog(prop: &str, prog: Program, cs: u64, thorough: bool) -> (Program, Trace, Report) {
    let cfg = cfg_for(cs, thorough);
    let tr = scenario::run(&prog, cfg);
    let mut rep = Report::default();
    {
        let ix = Index::build(&tr.events);
        let cx = Cx { prog: &prog, tr: &tr, ix: &ix, mt: oracle::ENGINE_MT };
        oracle::check(prop, &cx, &mut rep);
    }
    (prog, tr, rep)
}

pub fn witness_json(prop: &str, profile: &str, cs: u64, variant: usize, thorough: bool, prog: &Program, tr: &Trace, v: &oracle::Violation) -> String {
    let mut s = String::new();
    let _ = write!(
        s,
        "{{\n \"property\": {}, \"rule\": {}, \"sig\": {}, \"engine\": {}, \"profile\": {}, \"case_seed\": {}, \"variant\": {}, \"thorough\": {}, \"policy\": {},\n \"message\": {},\n \"witness_events\": {:?},\n \"program\": {},\n \"trace\": [\n",
        jstr(prop),
        jstr(v.rule),
        jstr(&v.sig),
        jstr(if oracle::ENGINE_MT { "L2-mt" } else if cfg!(debug_assertions) { "L1-vexec" } else { "L1-vexec-release" }),
        jstr(profile),
        cs,
        variant,
        thorough,
        jstr(&format!("{:?}", cfg_for(cs, thorough))),
        jstr(&v.msg),
        v.at,
        jstr(&format!("{:#?}", prog)),
    );
    for (i, e) in tr.events.iter().enumerate() {
        let _ = write!(s, "  {}{}\n", jstr(&log::fmt_ev(e)), if i + 1 < tr.events.len() { "," } else { "" });
    }
    s.push_str(" ]\n}\n");
    s
}

pub struct ShardArgs {
    pub prop: String,
    pub thorough: bool,
    pub seed: u64,
    pub shard: u64,
    pub nshards: u64,
    /// (profile, total cases over all shards)
    pub plan: Vec<(String, u64)>,
    pub out: String,
    pub replay_dir: String,
    pub deadline_s: f64,
}

pub fn run_shard(a: &ShardArgs) {
    let t0 = Instant::now();
    let mut evals = 0u64;
    let mut inconclusive = 0u64;
    let mut hashes: BTreeSet<u64> = BTreeSet::new();
    let mut all_hashes: BTreeSet<u64> = BTreeSet::new();
    let mut premises: BTreeMap<String, u64> = BTreeMap::new();
    let mut counters: BTreeMap<String, u64> = BTreeMap::new();
    let mut policies: BTreeMap<String, u64> = BTreeMap::new();
    let mut per_profile: BTreeMap<String, u64> = BTreeMap::new();
    let mut viols: Vec<String> = vec![];
    let mut seen_sig: BTreeMap<String, u32> = BTreeMap::new();
    let mut samples: Vec<String> = vec![];
    let (mut events, mut decisions, mut multi, mut steps) = (0u64, 0u64, 0u64, 0u64);
    let mut timed_out = false;
    'outer: for (pname, total) in &a.plan {
        let expand = pname.ends_with("+faults");
        let g = profile(pname.trim_end_matches("+faults"));
        let mut k = a.shard;
        while k < *total {
            if t0.elapsed().as_secs_f64() > a.deadline_s {
                timed_out = true;
                break 'outer;
            }
            let cs = case_seed(a.seed, pname, k);
            let mut runs: Vec<(Program, Trace, Report, String)> = vec![];
            {
                let (prog, tr, rep) = run_case(&a.prop, g, cs, a.thorough);
                if expand {
                    let mut r2 = Rng::new(cs ^ 0xfa17);
                    let variants = expand_faults(&prog, &tr, a.thorough, &mut r2);
                    runs.push((prog, tr, rep, "none".to_string()));
                    for (vp, label) in variants {
                        let (p2, t2, r2) = run_prog(&a.prop, vp, cs, a.thorough);
                        runs.push((p2, t2, r2, label));
                    }
                } else {
                    runs.push((prog, tr, rep, String::new()));
                }
            }
            let mut watchdog = false;
            for (variant, (prog, tr, rep, label)) in runs.into_iter().enumerate() {
                if oracle::ENGINE_MT && tr.inconclusive() {
                    watchdog = true;
                }
            if !label.is_empty() {
                *counters.entry(format!("fault_table.{label}")).or_insert(0) += 1;
                let hit = tr.events.iter().any(|e| matches!(e.k, log::K::Fault { .. }));
                if label != "none" && hit {
                    *counters.entry(format!("fault_table_hit.{label}")).or_insert(0) += 1;
                }
            }
            evals += 1;
            *per_profile.entry(pname.clone()).or_insert(0) += 1;
            *policies.entry(format!("{:?}", cfg_for(cs, a.thorough).policy)).or_insert(0) += 1;
            events += tr.events.len() as u64;
            decisions += tr.decisions;
            multi += tr.multi_choice;
            steps += tr.steps;
            if rep.inconclusive {
                inconclusive += 1;
            }
            let h = trace_hash(&tr);
            all_hashes.insert(h);
            if rep.nontrivial {
                hashes.insert(h);
            }
            for (r, n) in &rep.premises {
                *premises.entry(r.to_string()).or_insert(0) += n;
            }
            for (r, n) in &rep.counters {
                if r.starts_with("max.") {
                    let e = counters.entry(r.clone()).or_insert(0);
                    *e = (*e).max(*n);
                } else {
                    *counters.entry(r.clone()).or_insert(0) += n;
                }
            }
            if samples.len() < 2 && rep.nontrivial && rep.violations.is_empty() {
                let excerpt: Vec<String> = tr.events.iter().take(40).map(log::fmt_ev).collect();
                samples.push(format!(
                    "{{\"profile\": {}, \"case_seed\": {}, \"policy\": {}, \"program\": {}, \"trace_excerpt\": [{}], \"events\": {}}}",
                    jstr(pname),
                    cs,
                    jstr(&format!("{:?}", cfg_for(cs, a.thorough).policy)),
                    jstr(&format!("{:?}", prog)),
                    excerpt.iter().map(|s| jstr(s)).collect::<Vec<_>>().join(", "),
                    tr.events.len()
                ));
            }
            for v in &rep.violations {
                let key = format!("{}|{}", v.rule, v.sig);
                let n = seen_sig.entry(key).or_insert(0);
                *n += 1;
                if *n > 3 {
                    continue;
                }
                let _ = std::fs::create_dir_all(&a.replay_dir);
                let path = format!("{}/{}-{}-{}-v{}-{}.json", a.replay_dir, a.seed, pname, cs, variant, v.rule);
                let _ = std::fs::write(&path, witness_json(&a.prop, pname, cs, variant, a.thorough, &prog, &tr, v));
                viols.push(format!(
                    "{{\"rule\": {}, \"sig\": {}, \"msg\": {}, \"replay\": {}, \"profile\": {}, \"case_seed\": {}}}",
                    jstr(v.rule),
                    jstr(&v.sig),
                    jstr(&v.msg),
                    jstr(&path),
                    jstr(pname),
                    cs
                ));
            }
            }
            if watchdog {
                // L2 watchdog: client threads may be blocked for good; stop this shard here (inconclusive)
                timed_out = true;
                break 'outer;
            }
            k += a.nshards;
        }
    }
    let mut s = String::new();
    let _ = write!(
        s,
        "{{\"prop\": {}, \"shard\": {}, \"evals\": {}, \"inconclusive\": {}, \"timed_out\": {}, \"events\": {}, \"decisions\": {}, \"multi_choice\": {}, \"polls\": {}, \"wall_s\": {:.3},\n",
        jstr(&a.prop),
        a.shard,
        evals,
        inconclusive,
        timed_out,
        events,
        decisions,
        multi,
        steps,
        t0.elapsed().as_secs_f64()
    );
    let _ = write!(s, "\"nontrivial_hashes\": [{}],\n", hashes.iter().map(|h| h.to_string()).collect::<Vec<_>>().join(","));
    let _ = write!(s, "\"distinct_traces\": {},\n", all_hashes.len());
    let fmt_map = |m: &BTreeMap<String, u64>| m.iter().map(|(k, v)| format!("{}: {}", jstr(k), v)).collect::<Vec<_>>().join(", ");
    let _ = write!(s, "\"premises\": {{{}}},\n", fmt_map(&premises));
    let _ = write!(s, "\"counters\": {{{}}},\n", fmt_map(&counters));
    let _ = write!(s, "\"policies\": {{{}}},\n", fmt_map(&policies));
    let _ = write!(s, "\"profiles\": {{{}}},\n", fmt_map(&per_profile));
    let _ = write!(s, "\"violations\": [{}],\n", viols.join(",\n"));
    let _ = write!(s, "\"samples\": [{}]\n}}\n", samples.join(",\n"));
    std::fs::write(&a.out, s).expect("write shard result");
}
