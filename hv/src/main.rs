#![allow(clippy::too_many_arguments, clippy::type_complexity)]
pub mod actors;
pub mod dynh;
pub mod interp;
pub mod log;
pub mod prog;
pub mod rng;
pub mod rt;
pub mod scenario;
pub mod vexec;

pub fn panic_msg(p: &Box<dyn std::any::Any + Send>) -> String {
    if p.is::<actors::InjectedPanic>() {
        "injected".to_string()
    } else if let Some(s) = p.downcast_ref::<&str>() {
        s.to_string()
    } else if let Some(s) = p.downcast_ref::<String>() {
        s.clone()
    } else {
        "unknown panic".to_string()
    }
}

fn main() {
    std::panic::set_hook(Box::new(|info| {
        if info.payload().is::<actors::InjectedPanic>() {
            return;
        }
        if std::env::var("HV_PANIC_TRACE").is_ok() {
            eprintln!("panic: {info}");
        }
    }));
    use prog::*;
    let mut p = Program::new();
    let mut a = ActorDecl::plain(1);
    a.holders = vec![0, 1];
    a.mailbox = Some(1);
    a.entry = Entry::BuilderOwning;
    p.actors.push(a);
    p.clients.push(vec![
        Op::Send { slot: 0, script: vec![PStep::Sleep(2)], cancel: None },
        Op::Call { slot: 0, script: vec![], cancel: None },
        Op::Stop { slot: 0 },
        Op::Join { slot: 1, cancel: None },
    ]);
    p.clients.push(vec![
        Op::Call { slot: 0, script: vec![PStep::Interval(1)], cancel: None },
        Op::Sleep(3),
        Op::Ping { slot: 0, cancel: None },
        Op::Await { slot: 0, by_ref: false },
    ]);
    let t = scenario::run_l1(&p, scenario::RunCfg { seed: 1, policy: vexec::Policy::Uniform, spurious_permille: 0, max_steps: 100000 });
    for e in &t.events {
        println!("{}", log::fmt_ev(e));
    }
    println!("{:?} {:?} {:?} steps={}", t.clients_outcome, t.settle_outcome, t.cleanup_outcome, t.steps);
}
