#![allow(clippy::too_many_arguments, clippy::type_complexity)]
pub mod actors;
pub mod dynh;
#[cfg(any(feature = "l1", feature = "mt"))]
pub mod families;
#[cfg(any(feature = "l1", feature = "mt"))]
pub mod genp;
#[cfg(any(feature = "l1", feature = "mt"))]
pub mod index;
pub mod interp;
pub mod log;
#[cfg(any(feature = "l1", feature = "mt"))]
pub mod oracle;
pub mod prog;
pub mod rng;
pub mod rt;
#[cfg(any(feature = "l1", feature = "mt"))]
pub mod runner;
pub mod scenario;
#[cfg(any(feature = "l1", feature = "mt"))]
pub mod vexec;
#[cfg(all(not(feature = "l1"), not(feature = "mt")))]
pub mod xrt;

pub fn panic_msg(p: &Box<dyn std::any::Any + Send>) -> String {
    if p.is::<actors::InjectedPanic>() {
        "injected".to_string()
    } else if let Some(s) = p.downcast_ref::<&str>() {
        s.to_string()
    } else if let Some(s) = p.downcast_ref::<String>() {
        s.clone()
    } else {
        "unknown panic".to_string()
    }
}

fn arg<'a>(args: &'a [String], name: &str) -> Option<&'a str> {
    args.iter().position(|a| a == name).and_then(|i| args.get(i + 1)).map(|s| s.as_str())
}

fn main() {
    std::panic::set_hook(Box::new(|info| {
        if info.payload().is::<actors::InjectedPanic>() {
            return;
        }
        if std::env::var("HV_PANIC_TRACE").is_ok() {
            eprintln!("panic: {info}");
        }
    }));
    let args: Vec<String> = std::env::args().collect();
    match args.get(1).map(|s| s.as_str()) {
        // hv shard --prop C01 --tier quick --seed 1 --shard 0 --nshards 16 --plan mailbox:4000,x:100 --out f --replays dir
        #[cfg(all(not(feature = "l1"), not(feature = "mt")))]
        Some("xrt") => {
            let out = arg(&args, "--out").expect("--out");
            let repeat: u32 = arg(&args, "--repeat").and_then(|s| s.parse().ok()).unwrap_or(1);
            xrt::run(out, repeat);
        }
        #[cfg(any(feature = "l1", feature = "mt"))]
        Some("shard") => {
            let plan = arg(&args, "--plan")
                .unwrap_or("")
                .split(',')
                .filter(|s| !s.is_empty())
                .map(|s| {
                    let (n, c) = s.split_once(':').expect("plan item name:count");
                    (n.to_string(), c.parse().expect("count"))
                })
                .collect();
            let a = runner::ShardArgs {
                prop: arg(&args, "--prop").expect("--prop").to_string(),
                thorough: arg(&args, "--tier") == Some("thorough"),
                seed: arg(&args, "--seed").and_then(|s| s.parse().ok()).unwrap_or(0),
                shard: arg(&args, "--shard").and_then(|s| s.parse().ok()).unwrap_or(0),
                nshards: arg(&args, "--nshards").and_then(|s| s.parse().ok()).unwrap_or(1),
                plan,
                out: arg(&args, "--out").expect("--out").to_string(),
                replay_dir: arg(&args, "--replays").unwrap_or("/verif/replays/tmp").to_string(),
                deadline_s: arg(&args, "--deadline").and_then(|s| s.parse().ok()).unwrap_or(1e9),
            };
            runner::run_shard(&a);
        }
        // hv replay --prop C01 --profile mailbox --case-seed N [--thorough] [--trace]
        #[cfg(any(feature = "l1", feature = "mt"))]
        Some("replay") => {
            let prop = arg(&args, "--prop").expect("--prop");
            let pname = arg(&args, "--profile").expect("--profile");
            let cs: u64 = arg(&args, "--case-seed").and_then(|s| s.parse().ok()).expect("--case-seed");
            let thorough = args.iter().any(|a| a == "--thorough");
            let variant: usize = arg(&args, "--variant").and_then(|s| s.parse().ok()).unwrap_or(0);
            let base = runner::run_case(prop, runner::profile(pname.trim_end_matches("+faults")), cs, thorough);
            let (prog, tr, rep) = if variant > 0 && pname.ends_with("+faults") {
                let mut r2 = rng::Rng::new(cs ^ 0xfa17);
                let mut vs = runner::expand_faults(&base.0, &base.1, thorough, &mut r2);
                if variant > vs.len() {
                    eprintln!("variant {variant} out of range ({} variants)", vs.len());
                    std::process::exit(2);
                }
                let (vp, label) = vs.swap_remove(variant - 1);
                println!("fault variant {variant}: {label}");
                runner::run_prog(prop, vp, cs, thorough)
            } else {
                base
            };
            if args.iter().any(|a| a == "--trace") {
                println!("{:#?}", prog);
                for e in &tr.events {
                    println!("{}", log::fmt_ev(e));
                }
            }
            println!("outcomes: clients={:?} settle={:?} cleanup={:?} polls={}", tr.clients_outcome, tr.settle_outcome, tr.cleanup_outcome, tr.steps);
            println!("premises: {:?}", rep.premises);
            for v in &rep.violations {
                println!("REPLAY-VIOLATION property={} rule={} sig={} :: {} at {:?}", v.prop, v.rule, v.sig, v.msg, v.at);
            }
            if rep.violations.is_empty() {
                println!("REPLAY-OK");
            }
        }
        _ => {
            eprintln!("usage: hv shard|replay ...");
            std::process::exit(2);
        }
    }
}
