//! Type-erased views of hannibal's handle types over `Probe<K>` so that the interpreter's slot
//! table can hold handles to ordinary actors and to both service types.
use std::future::Future;
use std::pin::Pin;
use std::sync::Arc;
use std::task::{Context as TCx, Poll};

use futures::future::LocalBoxFuture;
use hannibal::error::{ActorError, Result as HResult};
use hannibal::prelude::*;
use hannibal::spawner::DefaultSpawnable;
use hannibal::{Addr, Caller, OwningAddr, Sender, WeakAddr, WeakCaller, WeakSender};

use crate::actors::*;
use crate::log::{JoinVal, Uid};
use crate::prog::{ActorDecl, Entry, Strategy};
use crate::rt;

pub fn err_name(e: &ActorError) -> &'static str {
    match e {
        ActorError::AsyncSendError(_) => "send",
        ActorError::Canceled(_) => "canceled",
        ActorError::AlreadyStopped => "already_stopped",
        ActorError::ServiceNotFound => "not_found",
        ActorError::ServiceStillRunning => "still_running",
        ActorError::Timeout => "timeout",
    }
}

pub fn joinval<const KK: usize>(p: Probe<KK>) -> JoinVal {
    JoinVal { obj: p.obj, seq: p.seq, fold: p.fold, handled: p.handled.clone() }
}

pub trait DynAddr: Send {
    fn k(&self) -> u8;
    fn clone_box(&self) -> Box<dyn DynAddr>;
    fn send(&self, m: Fire) -> LocalBoxFuture<'_, HResult<()>>;
    fn call(&self, m: Ask) -> LocalBoxFuture<'_, HResult<Reply>>;
    fn ping(&self) -> LocalBoxFuture<'_, HResult<()>>;
    fn stop(&mut self) -> HResult<()>;
    fn halt(self: Box<Self>) -> LocalBoxFuture<'static, HResult<()>>;
    fn restart(&mut self) -> HResult<()>;
    fn running(&self) -> bool;
    fn stopped(&self) -> bool;
    fn downgrade(&self) -> Box<dyn DynWeak>;
    fn sender(&self) -> Sender<Fire>;
    fn caller(&self) -> Caller<Ask>;
    fn weak_sender(&self) -> WeakSender<Fire>;
    fn weak_caller(&self) -> WeakCaller<Ask>;
    fn poll_ref(&mut self, cx: &mut TCx<'_>) -> Poll<HResult<()>>;
    fn into_await(self: Box<Self>) -> LocalBoxFuture<'static, HResult<()>>;
    fn register(self: Box<Self>) -> LocalBoxFuture<'static, HResult<(Box<dyn DynAddr>, Option<Box<dyn DynAddr>>)>>;
    fn replace(self: Box<Self>) -> LocalBoxFuture<'static, Option<Box<dyn DynAddr>>>;
    fn as_addr0(&self) -> Option<Addr<Probe<0>>>;
    fn subscribe(&self, topic: u8) -> LocalBoxFuture<'static, HResult<()>>;
    fn send_seq(&self, m: Seq) -> LocalBoxFuture<'_, HResult<()>>;
    fn weak_sender_seq(&self) -> WeakSender<Seq>;
    fn unsubscribe(&self, topic: u8) -> LocalBoxFuture<'static, HResult<()>>;
}

impl<const KK: usize> DynAddr for Addr<Probe<KK>> {
    fn k(&self) -> u8 {
        KK as u8
    }
    fn clone_box(&self) -> Box<dyn DynAddr> {
        Box::new(self.clone())
    }
    fn send(&self, m: Fire) -> LocalBoxFuture<'_, HResult<()>> {
        Box::pin(Addr::send(self, m))
    }
    fn call(&self, m: Ask) -> LocalBoxFuture<'_, HResult<Reply>> {
        Box::pin(Addr::call(self, m))
    }
    fn ping(&self) -> LocalBoxFuture<'_, HResult<()>> {
        Box::pin(Addr::ping(self))
    }
    fn stop(&mut self) -> HResult<()> {
        Addr::stop(self)
    }
    fn halt(self: Box<Self>) -> LocalBoxFuture<'static, HResult<()>> {
        Box::pin(Addr::halt(*self))
    }
    fn restart(&mut self) -> HResult<()> {
        Addr::restart(self)
    }
    fn running(&self) -> bool {
        Addr::running(self)
    }
    fn stopped(&self) -> bool {
        Addr::stopped(self)
    }
    fn downgrade(&self) -> Box<dyn DynWeak> {
        Box::new(Addr::downgrade(self))
    }
    fn sender(&self) -> Sender<Fire> {
        Addr::sender(self)
    }
    fn caller(&self) -> Caller<Ask> {
        Addr::caller(self)
    }
    fn weak_sender(&self) -> WeakSender<Fire> {
        Addr::weak_sender(self)
    }
    fn weak_caller(&self) -> WeakCaller<Ask> {
        Addr::weak_caller(self)
    }
    fn poll_ref(&mut self, cx: &mut TCx<'_>) -> Poll<HResult<()>> {
        Pin::new(self).poll(cx)
    }
    fn into_await(self: Box<Self>) -> LocalBoxFuture<'static, HResult<()>> {
        Box::pin(*self)
    }
    fn register(self: Box<Self>) -> LocalBoxFuture<'static, HResult<(Box<dyn DynAddr>, Option<Box<dyn DynAddr>>)>> {
        Box::pin(async move {
            let (me, prev) = Addr::register(*self).await?;
            Ok((Box::new(me) as Box<dyn DynAddr>, prev.map(|p| Box::new(p) as Box<dyn DynAddr>)))
        })
    }
    fn replace(self: Box<Self>) -> LocalBoxFuture<'static, Option<Box<dyn DynAddr>>> {
        Box::pin(async move { Addr::replace(*self).await.map(|p| Box::new(p) as Box<dyn DynAddr>) })
    }
    fn as_addr0(&self) -> Option<Addr<Probe<0>>> {
        (self as &dyn std::any::Any).downcast_ref::<Addr<Probe<0>>>().cloned()
    }
    fn send_seq(&self, m: Seq) -> LocalBoxFuture<'_, HResult<()>> {
        Box::pin(Addr::send(self, m))
    }
    fn weak_sender_seq(&self) -> WeakSender<Seq> {
        Addr::weak_sender(self)
    }
    fn subscribe(&self, topic: u8) -> LocalBoxFuture<'static, HResult<()>> {
        match topic {
            0 => {
                let ws = Addr::weak_sender::<Topic<0>>(self);
                Box::pin(async move { hannibal::Broker::subscribe(ws).await })
            }
            _ => {
                let ws = Addr::weak_sender::<Topic<1>>(self);
                Box::pin(async move { hannibal::Broker::subscribe(ws).await })
            }
        }
    }
    fn unsubscribe(&self, topic: u8) -> LocalBoxFuture<'static, HResult<()>> {
        match topic {
            0 => {
                let ws = Addr::weak_sender::<Topic<0>>(self);
                Box::pin(async move { hannibal::Broker::<Topic<0>>::from_registry().await.unsubscribe(ws).await })
            }
            _ => {
                let ws = Addr::weak_sender::<Topic<1>>(self);
                Box::pin(async move { hannibal::Broker::<Topic<1>>::from_registry().await.unsubscribe(ws).await })
            }
        }
    }
}

pub trait DynWeak: Send {
    fn clone_box(&self) -> Box<dyn DynWeak>;
    fn upgrade(&self) -> Option<Box<dyn DynAddr>>;
    fn stopped(&self) -> bool;
    fn try_stop(&mut self) -> HResult<()>;
    fn try_halt(&mut self) -> LocalBoxFuture<'_, HResult<()>>;
}

impl<const KK: usize> DynWeak for WeakAddr<Probe<KK>> {
    fn clone_box(&self) -> Box<dyn DynWeak> {
        Box::new(self.clone())
    }
    fn upgrade(&self) -> Option<Box<dyn DynAddr>> {
        WeakAddr::upgrade(self).map(|a| Box::new(a) as Box<dyn DynAddr>)
    }
    fn stopped(&self) -> bool {
        WeakAddr::stopped(self)
    }
    fn try_stop(&mut self) -> HResult<()> {
        WeakAddr::try_stop(self)
    }
    fn try_halt(&mut self) -> LocalBoxFuture<'_, HResult<()>> {
        Box::pin(WeakAddr::try_halt(self))
    }
}

pub type JoinFut = LocalBoxFuture<'static, Option<JoinVal>>;

pub trait DynOwning {
    fn send(&self, m: Fire) -> LocalBoxFuture<'_, HResult<()>>;
    fn call(&self, m: Ask) -> LocalBoxFuture<'_, HResult<Reply>>;
    fn ping(&self) -> LocalBoxFuture<'_, HResult<()>>;
    fn to_addr(&self) -> Box<dyn DynAddr>;
    fn detach(self: Box<Self>) -> Box<dyn DynAddr>;
    fn join(&mut self) -> JoinFut;
    fn consume(self: Box<Self>) -> LocalBoxFuture<'static, HResult<JoinVal>>;
    fn consume_sync(self: Box<Self>) -> HResult<JoinFut>;
}

impl<const KK: usize> DynOwning for OwningAddr<Probe<KK>> {
    fn send(&self, m: Fire) -> LocalBoxFuture<'_, HResult<()>> {
        Box::pin(OwningAddr::send(self, m))
    }
    fn call(&self, m: Ask) -> LocalBoxFuture<'_, HResult<Reply>> {
        Box::pin(OwningAddr::call(self, m))
    }
    fn ping(&self) -> LocalBoxFuture<'_, HResult<()>> {
        Box::pin(OwningAddr::ping(self))
    }
    fn to_addr(&self) -> Box<dyn DynAddr> {
        Box::new(OwningAddr::to_addr(self))
    }
    fn detach(self: Box<Self>) -> Box<dyn DynAddr> {
        Box::new(OwningAddr::detach(*self))
    }
    fn join(&mut self) -> JoinFut {
        let f = OwningAddr::join(self);
        Box::pin(async move { f.await.map(joinval) })
    }
    fn consume(self: Box<Self>) -> LocalBoxFuture<'static, HResult<JoinVal>> {
        // the library call is made here and now (not inside the wrapper's first poll): whether `consume()` is lazy is
        // the library's business, and part of what is observed
        let f = OwningAddr::consume(*self);
        Box::pin(async move { f.await.map(joinval) })
    }
    fn consume_sync(self: Box<Self>) -> HResult<JoinFut> {
        let f = OwningAddr::consume_sync(*self)?;
        Ok(Box::pin(async move { f.await.map(joinval) }))
    }
}

pub fn spec_of(d: &ActorDecl) -> Arc<Spec> {
    Arc::new(Spec {
        tag: d.tag,
        started: d.started.clone(),
        stopped: d.stopped.clone(),
        started_err_at: d.started_err_at.clone(),
        aux_work: d.aux_work,
        tick_work: d.tick_work,
        aux_yield: d.aux_yield,
        item_stop_at: d.item_stop_at,
    })
}

pub struct Spawned {
    pub addr: Option<Box<dyn DynAddr>>,
    pub owning: Option<Box<dyn DynOwning>>,
    pub obj: Uid,
}

pub fn spawn_decl(d: &ActorDecl) -> Spawned {
    match d.k {
        0 => spawn_k::<0>(d),
        1 => spawn_k::<1>(d),
        _ => spawn_k::<2>(d),
    }
}

/// `Default::default()` of a harness actor reads a process-global "default spec": spawns that go through Default
/// are serialised so that concurrent client threads (L2) cannot swap it under each other
static DEFAULT_SPAWN: std::sync::Mutex<()> = std::sync::Mutex::new(());

fn spawn_k<const KK: usize>(d: &ActorDecl) -> Spawned {
    let _serial = DEFAULT_SPAWN.lock().unwrap_or_else(|e| e.into_inner());
    let spec = spec_of(d);
    register_spec(Arc::clone(&spec));
    if d.strategy == Strategy::Recreate
        || matches!(d.entry, Entry::SpawnDefault | Entry::DefaultSpawnOwning)
    {
        set_default_spec(KK, Arc::clone(&spec));
    }
    let actor = Probe::<KK>::new(Arc::clone(&spec));
    let obj = actor.obj;
    let stream = || VStream::new(d.stream.clone().unwrap_or(StreamSpec { bursts: vec![], repeat: false, ends: true, always_ready: false }));
    fn own<const KK: usize>(o: OwningAddr<Probe<KK>>, obj: Uid) -> Spawned {
        Spawned { addr: Some(Box::new(o.to_addr())), owning: Some(Box::new(o)), obj }
    }
    fn plain<const KK: usize>(a: Addr<Probe<KK>>, obj: Uid) -> Spawned {
        Spawned { addr: Some(Box::new(a)), owning: None, obj }
    }
    match d.entry {
        Entry::Spawn => plain(actor.spawn(), obj),
        Entry::SpawnOwning => own(actor.spawn_owning(), obj),
        Entry::SpawnDefault => {
            drop(actor);
            crate::actors::expect_default_spawn(KK, Arc::clone(&spec));
            let r = Probe::<KK>::spawn_default();
            crate::actors::default_spawn_returned();
            match r {
                Ok(a) => plain(a, 0),
                Err(_) => Spawned { addr: None, owning: None, obj: 0 },
            }
        }
        Entry::DefaultSpawnOwning => {
            drop(actor);
            crate::actors::expect_default_spawn(KK, Arc::clone(&spec));
            let r = <Probe<KK> as DefaultSpawnable<_>>::spawn_owning();
            crate::actors::default_spawn_returned();
            match r {
                Ok(o) => own(o, 0),
                Err(_) => Spawned { addr: None, owning: None, obj: 0 },
            }
        }
        Entry::OnStream => match actor.spawn_on_stream(stream()) {
            Ok(a) => plain(a, obj),
            Err(_) => Spawned { addr: None, owning: None, obj },
        },
        Entry::OwningOnStream => match actor.spawn_owning_on_stream(stream()) {
            Ok(o) => own(o, obj),
            Err(_) => Spawned { addr: None, owning: None, obj },
        },
        Entry::Builder | Entry::BuilderOwning => {
            let b = hannibal::build(actor);
            let on_base = d.cfg_order & 2 == 0;
            let fail_first = d.cfg_order & 1 == 1;
            let b = if on_base {
                match (d.timeout, fail_first) {
                    (Some(t), false) => b.timeout(rt::dur(t)).fail_on_timeout(d.fail_on_timeout),
                    (Some(t), true) => b.fail_on_timeout(d.fail_on_timeout).timeout(rt::dur(t)),
                    (None, _) => b.fail_on_timeout(d.fail_on_timeout),
                }
            } else {
                b
            };
            let wc = match d.mailbox {
                Some(n) => b.bounded(n),
                None => b.unbounded(),
            };
            let wc = if !on_base {
                match (d.timeout, fail_first) {
                    (Some(t), false) => wc.timeout(rt::dur(t)).fail_on_timeout(d.fail_on_timeout),
                    (Some(t), true) => wc.fail_on_timeout(d.fail_on_timeout).timeout(rt::dur(t)),
                    (None, _) => wc.fail_on_timeout(d.fail_on_timeout),
                }
            } else {
                wc
            };
            let owning = d.entry == Entry::BuilderOwning;
            match (d.strategy, owning) {
                (Strategy::RestartOnly, false) => plain(wc.spawn(), obj),
                (Strategy::RestartOnly, true) => own(wc.spawn_owning(), obj),
                (Strategy::Recreate, false) => plain(wc.recreate_from_default().spawn(), obj),
                (Strategy::Recreate, true) => own(wc.recreate_from_default().spawn_owning(), obj),
                (Strategy::NonRestartable, false) => plain(wc.non_restartable().spawn(), obj),
                (Strategy::NonRestartable, true) => own(wc.non_restartable().spawn_owning(), obj),
            }
        }
        Entry::BuilderOnStream | Entry::BuilderOnStreamOwning => {
            let b = hannibal::build(actor);
            // a handler timeout configured on the builder does not apply to stream-attached actors (C13: nothing
            // being handled is ever abandoned); configured here so that this is exercised
            let b = match d.timeout {
                Some(t) => b.timeout(rt::dur(t)).fail_on_timeout(d.fail_on_timeout),
                None => b,
            };
            let sb = match d.mailbox {
                Some(n) => b.bounded_on_stream(n, stream()),
                None => b.on_stream(stream()),
            };
            if d.entry == Entry::BuilderOnStream { plain(sb.spawn(), obj) } else { own(sb.spawn_owning(), obj) }
        }
        Entry::BuilderWithStream | Entry::BuilderWithStreamOwning => {
            let b = hannibal::build(actor);
            let wc = match d.mailbox {
                Some(n) => b.bounded(n),
                None => b.unbounded(),
            };
            let wc = match d.timeout {
                Some(t) => wc.timeout(rt::dur(t)).fail_on_timeout(d.fail_on_timeout),
                None => wc,
            };
            let sb = wc.non_restartable().with_stream(stream());
            if d.entry == Entry::BuilderWithStream { plain(sb.spawn(), obj) } else { own(sb.spawn_owning(), obj) }
        }
    }
}

// --- future wrappers --------------------------------------------------------------------------

/// Polls `fut`; counts Pending results; if `cancel_after = Some(k)` drops it after k Pending polls.
pub struct Watched<F> {
    fut: Option<Pin<Box<F>>>,
    pub pending: u32,
    cancel_after: Option<u8>,
}

impl<F: Future> Watched<F> {
    pub fn new(fut: F, cancel_after: Option<u8>) -> Self {
        Watched { fut: Some(Box::pin(fut)), pending: 0, cancel_after }
    }
}

impl<F: Future> Future for Watched<F> {
    /// (result or None if cancelled, number of Pending polls)
    type Output = (Option<F::Output>, u32);
    fn poll(self: Pin<&mut Self>, cx: &mut TCx<'_>) -> Poll<Self::Output> {
        let this = self.get_mut();
        if let Some(k) = this.cancel_after {
            if this.pending >= k as u32 {
                this.fut = None;
                return Poll::Ready((None, this.pending));
            }
        }
        let Some(f) = this.fut.as_mut() else {
            return Poll::Ready((None, this.pending));
        };
        match f.as_mut().poll(cx) {
            Poll::Ready(v) => {
                this.fut = None;
                Poll::Ready((Some(v), this.pending))
            }
            Poll::Pending => {
                this.pending += 1;
                if let Some(k) = this.cancel_after {
                    if this.pending >= k as u32 {
                        cx.waker().wake_by_ref();
                    }
                }
                Poll::Pending
            }
        }
    }
}

/// `build(actor).bounded(n)|unbounded()[.recreate_from_default()|.non_restartable()].register().await`
pub fn spawn_register(d: &ActorDecl) -> LocalBoxFuture<'static, (Uid, HResult<(Box<dyn DynAddr>, Option<Box<dyn DynAddr>>)>)> {
    match d.k {
        1 => spawn_register_k::<1>(d.clone()),
        _ => spawn_register_k::<2>(d.clone()),
    }
}

fn spawn_register_k<const KK: usize>(d: ActorDecl) -> LocalBoxFuture<'static, (Uid, HResult<(Box<dyn DynAddr>, Option<Box<dyn DynAddr>>)>)> {
    Box::pin(async move {
        let spec = spec_of(&d);
        register_spec(Arc::clone(&spec));
        if d.strategy == Strategy::Recreate {
            set_default_spec(KK, Arc::clone(&spec));
        }
        let actor = Probe::<KK>::new(Arc::clone(&spec));
        let obj = actor.obj;
        let b = hannibal::build(actor);
        let b = if let Some(t) = d.timeout { b.timeout(rt::dur(t)) } else { b };
        let b = b.fail_on_timeout(d.fail_on_timeout);
        let wc = match d.mailbox {
            Some(n) => b.bounded(n),
            None => b.unbounded(),
        };
        let r = match d.strategy {
            Strategy::RestartOnly => wc.register().await,
            Strategy::Recreate => wc.recreate_from_default().register().await,
            Strategy::NonRestartable => wc.non_restartable().register().await,
        };
        (obj, r.map(|(me, prev)| (Box::new(me) as Box<dyn DynAddr>, prev.map(|p| Box::new(p) as Box<dyn DynAddr>))))
    })
}
