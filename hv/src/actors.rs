//! Harness actors.  One data-driven actor type `Probe<K>`: K = 0 ordinary actors, K = 1, 2 are
//! the two service types of the registry workloads.  Every callback logs enter/exit events.
use std::collections::HashMap;
use std::sync::{Arc, Mutex};

use hannibal::{Actor, Addr, Context, DynResult, Handler, Message, RestartableActor, Service, StreamHandler};

use crate::log::{self, Cb, K, Mk, Uid};
use crate::rt;

pub struct InjectedPanic;

/// runtime script step (program-level `PStep`s are resolved to these by the interpreter)
pub enum Step {
    Yield,
    Sleep(u64),
    CtxStop,
    CtxRestart,
    Interval(Uid, u64),
    IntervalWith(Uid, u64),
    DelayedSend(Uid, u64),
    DelayedExec(Uid, u64),
    /// (child address, child's harness tag)
    AddChild(Addr<Probe<0>>, u32),
    RegisterChild(u8, Addr<Probe<0>>, u32),
    SendToChildren(u8, Uid),
    Subscribe(u8),
    Publish(u8, Uid),
    Panic,
    CallAddr(Addr<Probe<0>>, Uid),
    /// C05.R4 / C15: look at the context's own weak handles (must never keep the actor alive)
    WeakSelf,
    TryFromRegistry(u8),
    ExportWeakSender,
}

impl Step {
    pub fn name(&self) -> &'static str {
        match self {
            Step::Yield => "yield",
            Step::Sleep(_) => "sleep",
            Step::CtxStop => "ctx_stop",
            Step::CtxRestart => "ctx_restart",
            Step::Interval(..) => "interval",
            Step::IntervalWith(..) => "interval_with",
            Step::DelayedSend(..) => "delayed_send",
            Step::DelayedExec(..) => "delayed_exec",
            Step::AddChild(..) => "add_child",
            Step::RegisterChild(..) => "register_child",
            Step::SendToChildren(..) => "send_to_children",
            Step::Subscribe(_) => "subscribe",
            Step::Publish(..) => "publish",
            Step::Panic => "panic",
            Step::CallAddr(..) => "call_addr",
            Step::WeakSelf => "weak_self",
            Step::TryFromRegistry(_) => "try_from_registry",
            Step::ExportWeakSender => "export_weak_sender",
        }
    }
}

/// static per-actor configuration (shared by all incarnations / recreated values of one tag)
#[derive(Default)]
pub struct Spec {
    pub tag: u32,
    /// timers etc. registered in `started`: (kind, dur) resolved to fresh uids per incarnation
    pub started: Vec<SStep>,
    pub stopped: Vec<SStep>,
    /// `started` returns Err at these started-call indices (0 = first start)
    pub started_err_at: Vec<u32>,
    /// sleep units inside Tick/Topic/Bcast/Unit/Item handlers
    pub aux_work: u64,
    /// sleep units inside Tick handlers (kept separate: a slow tick handler under a fast interval is overload)
    pub tick_work: u64,
    /// yield once inside aux handlers (always-ready streams need it)
    pub aux_yield: bool,
    pub item_stop_at: Option<u32>,
}

/// cloneable script steps for started/stopped (no handles inside)
#[derive(Clone, Debug, PartialEq, Eq, Hash)]
pub enum SStep {
    Yield,
    Sleep(u64),
    Interval(u64),
    IntervalWith(u64),
    DelayedSend(u64),
    DelayedExec(u64),
    Subscribe(u8),
    CtxStop,
    /// in the n first incarnations, started() asks for a restart (an actor that retries its initialisation)
    CtxRestartUntil(u32),
}

#[derive(Clone, Copy, Debug, PartialEq, Eq)]
pub enum FaultKind {
    Panic,
    Err,
}

/// "at the nth callback entry (0-based, counted per tag over started/handlers/stopped/finished) do X"
#[derive(Clone, Copy, Debug)]
pub struct FaultPlan {
    pub tag: u32,
    pub nth: u32,
    pub kind: FaultKind,
}

#[derive(Default)]
struct Globals {
    defaults: HashMap<usize, Arc<Spec>>,
    /// specs of spawns through `Default` whose value has not been created yet (type -> queue)
    pending_default: HashMap<usize, std::collections::VecDeque<Arc<Spec>>>,
    task_tag: HashMap<u32, u32>,
    started_count: HashMap<u32, u32>,
    cb_count: HashMap<u32, u32>,
    fault: Vec<FaultPlan>,
    /// what kind of callback each counted entry was (for the fault table)
    cb_kinds: HashMap<u32, Vec<&'static str>>,
    specs: HashMap<u32, Arc<Spec>>,
}

static G: Mutex<Option<Globals>> = Mutex::new(None);

fn with_g<R>(f: impl FnOnce(&mut Globals) -> R) -> R {
    let mut g = G.lock().unwrap_or_else(|e| e.into_inner());
    f(g.get_or_insert_with(Default::default))
}

pub fn reset_globals() {
    reset_ready_streams();
    *EXPORTED.lock().unwrap_or_else(|e| e.into_inner()) = None;
    with_g(|g| *g = Globals::default());
}
pub fn set_default_spec(k: usize, spec: Arc<Spec>) {
    with_g(|g| {
        g.defaults.insert(k, spec);
    });
}
/// a spawn through `Default::default()` is about to be made for this declaration: the next default-created value of
/// the type is its actor - whenever the library gets round to creating it (inside the spawn call, or in the new task)
pub fn expect_default_spawn(k: usize, spec: Arc<Spec>) {
    IN_DEFAULT_SPAWN.with(|c| *c.borrow_mut() = Some((k, spec)));
}
/// the spawn call has returned: if the library has not created the value yet (it may do so in the new task), the
/// declaration waits in a queue for the next default-created value of its type that is not a recreate-restart
pub fn default_spawn_returned() {
    if let Some((k, spec)) = IN_DEFAULT_SPAWN.with(|c| c.borrow_mut().take()) {
        with_g(|g| g.pending_default.entry(k).or_default().push_back(spec));
    }
}
thread_local! {
    static IN_DEFAULT_SPAWN: std::cell::RefCell<Option<(usize, Arc<Spec>)>> = const { std::cell::RefCell::new(None) };
}
pub fn register_spec(spec: Arc<Spec>) {
    with_g(|g| {
        g.specs.insert(spec.tag, spec);
    });
}
pub fn set_faults(f: Vec<FaultPlan>) {
    with_g(|g| g.fault = f);
}
pub fn cb_kinds(tag: u32) -> Vec<&'static str> {
    with_g(|g| g.cb_kinds.get(&tag).cloned().unwrap_or_default())
}

/// returns the fault to inject at this callback entry, if any
fn fault_point(tag: u32, which: &'static str) -> Option<FaultKind> {
    with_g(|g| {
        let n = g.cb_count.entry(tag).or_insert(0);
        let cur = *n;
        *n += 1;
        g.cb_kinds.entry(tag).or_default().push(which);
        g.fault.iter().find(|f| f.tag == tag && f.nth == cur).map(|f| f.kind)
    })
}

pub struct Probe<const KK: usize> {
    pub obj: Uid,
    pub tag: u32,
    pub spec: Arc<Spec>,
    pub seq: u64,
    pub fold: u64,
    pub handled: Vec<Uid>,
    /// loop task key, learnt in `started`
    pub actor: u32,
    /// in-actor FIFO monitor for burst traffic: client -> (next expected sequence number, handled count)
    pub bursts: HashMap<u16, (u32, u32)>,
    /// which started() of this tag this incarnation is (0-based)
    pub inc_no: u32,
    /// stream items this value has been handed so far
    pub items_seen: u32,
}

impl<const KK: usize> Probe<KK> {
    pub fn new(spec: Arc<Spec>) -> Self {
        Probe { obj: log::uid(), tag: spec.tag, spec, seq: 0, fold: 0, handled: Vec::new(), actor: u32::MAX, bursts: HashMap::new(), inc_no: 0, items_seen: 0 }
    }
    fn apply(&mut self, msg: Uid) {
        self.seq += 1;
        self.fold = log::mix(self.fold, msg);
        self.handled.push(msg);
    }
}

impl<const KK: usize> Default for Probe<KK> {
    fn default() -> Self {
        // whose value is this?  (1) created inside a spawn-through-Default call of this thread: that declaration's;
        // (2) created inside the task of an actor that has started before: a recreate-from-default restart (the tag is
        // resolved from the task in `started`); (3) a spawn-through-Default whose call has returned without creating
        // the value: the oldest such declaration of this type; (4) otherwise the type's default spec (on-demand
        // service instances)
        let here = IN_DEFAULT_SPAWN.with(|c| {
            let mut c = c.borrow_mut();
            if matches!(&*c, Some((k, _)) if *k == KK) { c.take().map(|x| x.1) } else { None }
        });
        let task = rt::now_and_task().1;
        let spec = here
            .or_else(|| {
                with_g(|g| {
                    let restarting = task != u32::MAX && g.task_tag.contains_key(&task);
                    let lazy = if restarting { None } else { g.pending_default.get_mut(&KK).and_then(|q| q.pop_front()) };
                    lazy.or_else(|| g.defaults.get(&KK).cloned())
                })
            })
            .unwrap_or_else(|| Arc::new(Spec { tag: 9000 + KK as u32, ..Default::default() }));
        let mut p = Probe::new(spec);
        // (the creation is an event of its own: a lookup that spawns a service on demand creates the value inside its
        // own interval, whether or not it then waits for `started()`)
        log::log(K::ObjNew { obj: p.obj, tag: 9000 + KK as u32 });
        // tag resolved in `started` (a recreated value belongs to whatever actor task runs it)
        p.tag = u32::MAX;
        p
    }
}

impl<const KK: usize> Drop for Probe<KK> {
    fn drop(&mut self) {
        log::log(K::ObjDrop { obj: self.obj, tag: self.tag });
    }
}

struct HGuard {
    mk: Mk,
    msg: Uid,
    actor: u32,
    obj: Uid,
    done: bool,
}
impl Drop for HGuard {
    fn drop(&mut self) {
        if !self.done {
            log::log(K::HAbandon { mk: self.mk, msg: self.msg, actor: self.actor, obj: self.obj });
        }
    }
}

struct CbGuard {
    cb: Cb,
    actor: u32,
    obj: Uid,
    tag: u32,
    done: bool,
}
impl Drop for CbGuard {
    fn drop(&mut self) {
        if !self.done {
            log::log(K::Note(format!("callback {:?} of tag {} obj {} abandoned", self.cb, self.tag, self.obj)));
            log::log(K::CbOut { cb: self.cb, actor: self.actor, obj: self.obj, tag: self.tag, ok: false });
        }
    }
}

pub struct Tick {
    pub timer: Uid,
}
/// `Context::interval` clones its message for every expiry: the clone is the firing event
impl Clone for Tick {
    fn clone(&self) -> Self {
        log::log(K::TimerFire { id: self.timer });
        Tick { timer: self.timer }
    }
}
impl Message for Tick {
    type Response = ();
}

pub struct Fire {
    pub uid: Uid,
    pub script: Vec<Step>,
}
impl Message for Fire {
    type Response = ();
}

pub struct Ask {
    pub uid: Uid,
    pub script: Vec<Step>,
}
#[derive(Clone, Debug, PartialEq, Eq)]
pub struct Reply {
    pub msg: Uid,
    pub actor: u32,
    pub obj: Uid,
    pub seq: u64,
    pub fold: u64,
}
impl Message for Ask {
    type Response = Reply;
}

#[derive(Clone)]
pub struct Topic<const T: u8> {
    pub uid: Uid,
}
impl<const T: u8> Message for Topic<T> {
    type Response = ();
}

#[derive(Clone)]
pub struct Bcast<const T: u8> {
    pub uid: Uid,
}
impl<const T: u8> Message for Bcast<T> {
    type Response = ();
}

pub struct Item {
    pub uid: Uid,
}

/// burst traffic: per-client sequence numbers, checked inside the actor without touching the event log
pub struct Seq {
    pub client: u16,
    pub n: u32,
}
impl Message for Seq {
    type Response = ();
}

impl<const KK: usize> Probe<KK> {
    fn enter(&mut self, mk: Mk, msg: Uid, which: &'static str) -> HGuard {
        let actor = rt::now_and_task().1;
        log::log(K::HIn { mk, msg, actor, obj: self.obj, tag: self.tag });
        let g = HGuard { mk, msg, actor, obj: self.obj, done: false };
        if let Some(f) = fault_point(self.tag, which) {
            log::log(K::Fault { what: "handler_panic", arg: msg });
            let _ = f;
            std::panic::panic_any(InjectedPanic);
        }
        g
    }
    fn exit(&mut self, mut g: HGuard) {
        self.apply(g.msg);
        g.done = true;
        log::log(K::HOut { mk: g.mk, msg: g.msg, actor: g.actor, obj: self.obj, seq: self.seq, fold: self.fold });
    }

    async fn aux(&mut self, mk: Mk, msg: Uid) {
        let g = self.enter(mk, msg, "aux");
        if self.spec.aux_yield {
            rt::yield_now().await;
        }
        let work = if mk == Mk::Tick { self.spec.tick_work } else { self.spec.aux_work };
        if work > 0 {
            rt::sleep(work).await;
        }
        self.exit(g);
    }

    fn reg_interval(&mut self, ctx: &mut Context<Self>, id: Uid, d: u64, kind: &'static str) {
        let actor = rt::now_and_task().1;
        log::log(K::TimerReg { id, actor, tag: self.tag, kind, dur: d });
        match kind {
            "interval" => ctx.interval(Tick { timer: id }, rt::dur(d)),
            "interval_with" => ctx.interval_with(
                move || {
                    log::log(K::TimerFire { id });
                    Tick { timer: id }
                },
                rt::dur(d),
            ),
            "delayed_send" => ctx.delayed_send(
                move || {
                    log::log(K::TimerFire { id });
                    Tick { timer: id }
                },
                rt::dur(d),
            ),
            _ => {
                let tag = self.tag;
                ctx.delayed_exec(
                    async move {
                        log::log(K::TimerFire { id });
                        log::log(K::Exec { id, actor_tag: tag });
                        // every other job suspends: it belongs to the timer, so it is cancelled with the actor (and
                        // on restart) like the delay itself; the second marker must never appear after that
                        if id % 2 == 1 {
                            rt::sleep(2).await;
                            log::log(K::TimerFire { id });
                        }
                    },
                    rt::dur(d),
                )
            }
        }
    }

    async fn run_sscript(&mut self, ctx: &mut Context<Self>, which: Uid, script: &[SStep]) {
        let actor = rt::now_and_task().1;
        for (i, s) in script.iter().enumerate() {
            let i = i as u16;
            match s {
                SStep::Yield => rt::yield_now().await,
                SStep::Sleep(d) => rt::sleep(*d).await,
                SStep::Interval(d) => self.reg_interval(ctx, log::uid(), *d, "interval"),
                SStep::IntervalWith(d) => self.reg_interval(ctx, log::uid(), *d, "interval_with"),
                SStep::DelayedSend(d) => self.reg_interval(ctx, log::uid(), *d, "delayed_send"),
                SStep::DelayedExec(d) => self.reg_interval(ctx, log::uid(), *d, "delayed_exec"),
                SStep::Subscribe(t) => {
                    let ok = match t {
                        0 => ctx.subscribe::<Topic<0>>().await.is_ok(),
                        _ => ctx.subscribe::<Topic<1>>().await.is_ok(),
                    };
                    log::log(K::Effect { msg: which, actor, step: i, what: "subscribe", arg: *t as u64, ok });
                }
                SStep::CtxRestartUntil(n) => {
                    if self.inc_no < *n {
                        log::log(K::Effect { msg: which, actor, step: i, what: "ctx_restart.begin", arg: 0, ok: true });
                        let ok = ctx.restart().is_ok();
                        log::log(K::Effect { msg: which, actor, step: i, what: "ctx_restart", arg: 0, ok });
                    }
                }
                SStep::CtxStop => {
                    // (the request is a cross-thread event: on real threads its log entry may be delayed, so a marker is
                    // logged before the call as well; oracles take [marker, entry] as the request's interval)
                    log::log(K::Effect { msg: which, actor, step: i, what: "ctx_stop.begin", arg: 0, ok: true });
                    let ok = ctx.stop().is_ok();
                    log::log(K::Effect { msg: which, actor, step: i, what: "ctx_stop", arg: 0, ok });
                }
            }
        }
    }

    async fn run_script(&mut self, ctx: &mut Context<Self>, msg: Uid, script: Vec<Step>) {
        let actor = rt::now_and_task().1;
        for (i, s) in script.into_iter().enumerate() {
            let i = i as u16;
            let name = s.name();
            match s {
                Step::Yield => rt::yield_now().await,
                Step::Sleep(d) => {
                    rt::sleep(d).await;
                    // progress marker: an abandoned invocation must not get here
                    log::log(K::Effect { msg, actor, step: i, what: "after_sleep", arg: d, ok: true });
                }
                Step::CtxStop => {
                    log::log(K::Effect { msg, actor, step: i, what: "ctx_stop.begin", arg: 0, ok: true });
                    let ok = ctx.stop().is_ok();
                    log::log(K::Effect { msg, actor, step: i, what: name, arg: 0, ok });
                }
                Step::CtxRestart => {
                    log::log(K::Effect { msg, actor, step: i, what: "ctx_restart.begin", arg: 0, ok: true });
                    let ok = ctx.restart().is_ok();
                    log::log(K::Effect { msg, actor, step: i, what: name, arg: 0, ok });
                }
                Step::Interval(id, d) => self.reg_interval(ctx, id, d, "interval"),
                Step::IntervalWith(id, d) => self.reg_interval(ctx, id, d, "interval_with"),
                Step::DelayedSend(id, d) => self.reg_interval(ctx, id, d, "delayed_send"),
                Step::DelayedExec(id, d) => self.reg_interval(ctx, id, d, "delayed_exec"),
                Step::AddChild(a, tag) => {
                    ctx.add_child(a);
                    log::log(K::Effect { msg, actor, step: i, what: name, arg: (2u64 << 32) | tag as u64, ok: true });
                }
                Step::RegisterChild(t, a, tag) => {
                    match t {
                        0 => ctx.register_child::<Bcast<0>>(a),
                        _ => ctx.register_child::<Bcast<1>>(a),
                    }
                    log::log(K::Effect { msg, actor, step: i, what: name, arg: ((t.min(1) as u64) << 32) | tag as u64, ok: true });
                }
                Step::SendToChildren(t, uid) => {
                    let what = match t {
                        0 => {
                            ctx.send_to_children(Bcast::<0> { uid });
                            "send_to_children.0"
                        }
                        1 => {
                            ctx.send_to_children(Bcast::<1> { uid });
                            "send_to_children.1"
                        }
                        _ => {
                            ctx.send_to_children(());
                            "send_to_children.2"
                        }
                    };
                    log::log(K::Effect { msg, actor, step: i, what, arg: uid, ok: true });
                }
                Step::Subscribe(t) => {
                    let ok = match t {
                        0 => ctx.subscribe::<Topic<0>>().await.is_ok(),
                        _ => ctx.subscribe::<Topic<1>>().await.is_ok(),
                    };
                    log::log(K::Effect { msg, actor, step: i, what: name, arg: t as u64, ok });
                }
                Step::Publish(t, uid) => {
                    #[cfg(not(feature = "rt_smol"))]
                    let ok = match t {
                        0 => ctx.publish(Topic::<0> { uid }).await.is_ok(),
                        _ => ctx.publish(Topic::<1> { uid }).await.is_ok(),
                    };
                    #[cfg(feature = "rt_smol")]
                    let ok = {
                        let _ = t;
                        false
                    };
                    log::log(K::Effect { msg, actor, step: i, what: name, arg: uid, ok });
                }
                Step::Panic => {
                    log::log(K::Fault { what: "scripted_panic", arg: msg });
                    std::panic::panic_any(InjectedPanic);
                }
                Step::CallAddr(a, uid) => {
                    let r = a.call(Ask { uid, script: Vec::new() }).await;
                    let ok = matches!(&r, Ok(rep) if rep.msg == uid);
                    log::log(K::Effect { msg, actor, step: i, what: name, arg: uid, ok });
                }
                Step::ExportWeakSender => {
                    let ws = ctx.weak_sender::<Fire>();
                    EXPORTED.lock().unwrap_or_else(|e| e.into_inner()).get_or_insert_with(HashMap::new).insert(self.tag, ws);
                    log::log(K::Effect { msg, actor, step: i, what: name, arg: 0, ok: true });
                }
                Step::TryFromRegistry(k) => {
                    use hannibal::Service as _;
                    // (what it returns depends on who holds the registry lock at this instant: not an oracle input)
                    let some = match k {
                        1 => Probe::<1>::try_from_registry().is_some(),
                        _ => Probe::<2>::try_from_registry().is_some(),
                    };
                    log::log(K::Effect { msg, actor, step: i, what: name, arg: k as u64, ok: some });
                }
                Step::WeakSelf => {
                    let wa = ctx.weak_address();
                    let ws = ctx.weak_sender::<Fire>();
                    let wc = ctx.weak_caller::<Ask, Reply>();
                    let up = wa.as_ref().map(|w| w.upgrade().is_some()).unwrap_or(false) as u64
                        + 2 * ws.upgrade().is_some() as u64
                        + 4 * wc.upgrade().is_some() as u64;
                    // the weak handles stay alive inside the actor value? no: dropped here.
                    log::log(K::Effect { msg, actor, step: i, what: name, arg: up, ok: true });
                }
            }
        }
    }
}

impl<const KK: usize> Actor for Probe<KK> {
    const NAME: &'static str = "Probe";

    async fn started(&mut self, ctx: &mut Context<Self>) -> DynResult<()> {
        let actor = rt::now_and_task().1;
        self.actor = actor;
        if self.tag == u32::MAX {
            // default-created value: belongs to the actor whose task runs it
            // (where tasks have no identity - the cross-runtime engine - it keeps the tag of the default spec)
            self.tag = if actor == u32::MAX { self.spec.tag } else { with_g(|g| g.task_tag.get(&actor).copied()).unwrap_or(self.spec.tag) };
            if let Some(spec) = with_g(|g| g.specs.get(&self.tag).cloned()) {
                self.spec = spec;
            }
        }
        if actor != u32::MAX {
            with_g(|g| {
                g.task_tag.insert(actor, self.tag);
            });
        }
        let nth = with_g(|g| {
            let c = g.started_count.entry(self.tag).or_insert(0);
            let n = *c;
            *c += 1;
            n
        });
        self.inc_no = nth;
        log::log(K::CbIn { cb: Cb::Started, actor, obj: self.obj, tag: self.tag });
        let mut g = CbGuard { cb: Cb::Started, actor, obj: self.obj, tag: self.tag, done: false };
        let fault = fault_point(self.tag, "started");
        if fault == Some(FaultKind::Panic) {
            log::log(K::Fault { what: "started_panic", arg: nth as u64 });
            std::panic::panic_any(InjectedPanic);
        }
        if fault == Some(FaultKind::Err) || self.spec.started_err_at.contains(&nth) {
            log::log(K::Fault { what: "started_err", arg: nth as u64 });
            g.done = true;
            log::log(K::CbOut { cb: Cb::Started, actor, obj: self.obj, tag: self.tag, ok: false });
            return Err("injected started error".into());
        }
        let spec = Arc::clone(&self.spec);
        self.run_sscript(ctx, 0, &spec.started).await;
        g.done = true;
        log::log(K::CbOut { cb: Cb::Started, actor, obj: self.obj, tag: self.tag, ok: true });
        Ok(())
    }

    async fn stopped(&mut self, ctx: &mut Context<Self>) {
        let actor = rt::now_and_task().1;
        log::log(K::CbIn { cb: Cb::Stopped, actor, obj: self.obj, tag: self.tag });
        let mut g = CbGuard { cb: Cb::Stopped, actor, obj: self.obj, tag: self.tag, done: false };
        if fault_point(self.tag, "stopped").is_some() {
            log::log(K::Fault { what: "stopped_panic", arg: 0 });
            std::panic::panic_any(InjectedPanic);
        }
        let spec = Arc::clone(&self.spec);
        self.run_sscript(ctx, 1, &spec.stopped).await;
        for (client, (_, count)) in &self.bursts {
            log::log(K::Effect { msg: *client as u64, actor, step: 0, what: "burst_count", arg: *count as u64, ok: true });
        }
        g.done = true;
        log::log(K::CbOut { cb: Cb::Stopped, actor, obj: self.obj, tag: self.tag, ok: true });
    }
}

impl<const KK: usize> RestartableActor for Probe<KK> {}
impl<const KK: usize> Service for Probe<KK> {}

impl<const KK: usize> Handler<Fire> for Probe<KK> {
    async fn handle(&mut self, ctx: &mut Context<Self>, msg: Fire) {
        let g = self.enter(Mk::Fire, msg.uid, "fire");
        self.run_script(ctx, msg.uid, msg.script).await;
        self.exit(g);
    }
}

impl<const KK: usize> Handler<Ask> for Probe<KK> {
    async fn handle(&mut self, ctx: &mut Context<Self>, msg: Ask) -> Reply {
        let g = self.enter(Mk::Ask, msg.uid, "ask");
        self.run_script(ctx, msg.uid, msg.script).await;
        let actor = g.actor;
        self.exit(g);
        Reply { msg: msg.uid, actor, obj: self.obj, seq: self.seq, fold: self.fold }
    }
}

impl<const KK: usize> Handler<Seq> for Probe<KK> {
    async fn handle(&mut self, _ctx: &mut Context<Self>, msg: Seq) {
        let e = self.bursts.entry(msg.client).or_insert((0, 0));
        if msg.n != e.0 {
            let actor = rt::now_and_task().1;
            log::log(K::Effect { msg: ((msg.client as u64) << 32) | msg.n as u64, actor, step: 0, what: "burst_inversion", arg: e.0 as u64, ok: false });
        }
        e.0 = msg.n + 1;
        e.1 += 1;
    }
}

impl<const KK: usize> Handler<Tick> for Probe<KK> {
    async fn handle(&mut self, _ctx: &mut Context<Self>, msg: Tick) {
        self.aux(Mk::Tick, msg.timer).await
    }
}
impl<const KK: usize, const T: u8> Handler<Topic<T>> for Probe<KK> {
    async fn handle(&mut self, _ctx: &mut Context<Self>, msg: Topic<T>) {
        self.aux(Mk::Topic(T), msg.uid).await
    }
}
impl<const KK: usize, const T: u8> Handler<Bcast<T>> for Probe<KK> {
    async fn handle(&mut self, _ctx: &mut Context<Self>, msg: Bcast<T>) {
        self.aux(Mk::Bcast(T), msg.uid).await
    }
}
impl<const KK: usize> Handler<()> for Probe<KK> {
    async fn handle(&mut self, _ctx: &mut Context<Self>, _msg: ()) {
        // `()` carries no id: give the invocation a fresh one (0 is reserved for "no message", e.g. pings)
        self.aux(Mk::Unit, log::uid()).await
    }
}

impl<const KK: usize> StreamHandler<Item> for Probe<KK> {
    async fn handle(&mut self, ctx: &mut Context<Self>, msg: Item) {
        self.items_seen += 1;
        if self.spec.item_stop_at == Some(self.items_seen) {
            // an actor that decides on a stream item that it is done (same markers as the `CtxStop` script step)
            let actor = rt::now_and_task().1;
            log::log(K::Effect { msg: msg.uid, actor, step: 0, what: "ctx_stop.begin", arg: 0, ok: true });
            let ok = ctx.stop().is_ok();
            log::log(K::Effect { msg: msg.uid, actor, step: 0, what: "ctx_stop", arg: 0, ok });
        }
        self.aux(Mk::Item, msg.uid).await
    }
    async fn finished(&mut self, _ctx: &mut Context<Self>) {
        let actor = rt::now_and_task().1;
        log::log(K::CbIn { cb: Cb::Finished, actor, obj: self.obj, tag: self.tag });
        let mut g = CbGuard { cb: Cb::Finished, actor, obj: self.obj, tag: self.tag, done: false };
        if fault_point(self.tag, "finished").is_some() {
            log::log(K::Fault { what: "finished_panic", arg: 0 });
            std::panic::panic_any(InjectedPanic);
        }
        g.done = true;
        log::log(K::CbOut { cb: Cb::Finished, actor, obj: self.obj, tag: self.tag, ok: true });
    }
}

// ---------------------------------------------------------------------------------------------
// harness-controlled stream

#[derive(Clone, Debug, PartialEq, Eq, Hash)]
pub struct StreamSpec {
    /// (delay units before the burst, number of immediately-ready items)
    pub bursts: Vec<(u64, u32)>,
    /// repeat the burst plan forever
    pub repeat: bool,
    /// after the plan: true = end of stream, false = pending forever
    pub ends: bool,
    /// always-ready infinite stream (self-waking Pending every 8 items)
    pub always_ready: bool,
}

pub struct VStream {
    pub sid: Uid,
    spec: StreamSpec,
    idx: usize,
    left: u32,
    sleeping: Option<rt::SendFut>,
    started_burst: bool,
    yielded: u64,
    ended: bool,
}

impl VStream {
    pub fn new(spec: StreamSpec) -> VStream {
        VStream { sid: log::uid(), spec, idx: 0, left: 0, sleeping: None, started_burst: false, yielded: 0, ended: false }
    }
}

/// weak senders that actors exported from their own context (tag -> handle)
static EXPORTED: Mutex<Option<HashMap<u32, hannibal::WeakSender<Fire>>>> = Mutex::new(None);

pub fn take_exported(tag: u32) -> Option<hannibal::WeakSender<Fire>> {
    EXPORTED.lock().unwrap_or_else(|e| e.into_inner()).as_ref().and_then(|m| m.get(&tag).cloned())
}

/// items each live harness stream could hand out right now without waiting (sid -> count)
static READY_NOW: Mutex<Option<HashMap<Uid, u32>>> = Mutex::new(None);

fn set_ready_now(sid: Uid, left: Option<u32>) {
    let mut g = READY_NOW.lock().unwrap_or_else(|e| e.into_inner());
    let m = g.get_or_insert_with(HashMap::new);
    match left {
        Some(n) if n > 0 => {
            m.insert(sid, n);
        }
        _ => {
            m.remove(&sid);
        }
    }
}

/// called by the controlled executor at a quiescent point: nothing is runnable, yet these streams have items ready
pub fn note_ready_streams() {
    let g = READY_NOW.lock().unwrap_or_else(|e| e.into_inner());
    if let Some(m) = g.as_ref() {
        let mut v: Vec<(&Uid, &u32)> = m.iter().collect();
        v.sort();
        for (sid, left) in v {
            log::log(K::Note(format!("ready_stream sid={sid} left={left}")));
        }
    }
}

pub fn reset_ready_streams() {
    *READY_NOW.lock().unwrap_or_else(|e| e.into_inner()) = None;
}

impl Drop for VStream {
    fn drop(&mut self) {
        set_ready_now(self.sid, None);
        log::log(K::StreamDrop { sid: self.sid });
    }
}

impl futures::Stream for VStream {
    type Item = Item;
    fn poll_next(
        self: std::pin::Pin<&mut Self>,
        cx: &mut std::task::Context<'_>,
    ) -> std::task::Poll<Option<Item>> {
        use std::task::Poll;
        let this = self.get_mut();
        if this.ended {
            // like `stream::unfold`: a stream that has ended must not be polled again
            panic!("VStream polled again after it had ended");
        }
        if this.spec.always_ready {
            // truly always ready (like `stream::repeat`): the item handler yields, so the actor task still
            // returns to the executor once per item
            this.yielded += 1;
            let uid = log::uid();
            log::log(K::StreamYield { sid: this.sid, item: uid });
            return Poll::Ready(Some(Item { uid }));
        }
        loop {
            if this.left > 0 {
                this.left -= 1;
                set_ready_now(this.sid, Some(this.left));
                let uid = log::uid();
                log::log(K::StreamYield { sid: this.sid, item: uid });
                return Poll::Ready(Some(Item { uid }));
            }
            if this.started_burst {
                // burst exhausted
                this.started_burst = false;
                this.idx += 1;
            }
            if this.idx >= this.spec.bursts.len() {
                if this.spec.repeat && !this.spec.bursts.is_empty() {
                    this.idx = 0;
                } else if this.spec.ends {
                    this.ended = true;
                    log::log(K::StreamEnd { sid: this.sid });
                    return Poll::Ready(None);
                } else {
                    return Poll::Pending; // never woken again
                }
            }
            let (delay, count) = this.spec.bursts[this.idx];
            if this.sleeping.is_none() {
                this.sleeping = Some(rt::sleep(delay));
            }
            match this.sleeping.as_mut().map(|s| s.as_mut().poll(cx)) {
                Some(Poll::Pending) => return Poll::Pending,
                _ => {
                    this.sleeping = None;
                    this.left = count;
                    this.started_burst = true;
                    if count == 0 {
                        continue;
                    }
                }
            }
        }
    }
}
