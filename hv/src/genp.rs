//! Seeded program generators.  A general weighted generator plus structured per-property
//! families (added in `families.rs`).
use crate::actors::SStep;
use crate::log::Hk;
use crate::prog::*;
use crate::rng::Rng;

pub const LATTICE: [u64; 6] = [0, 1, 2, 3, 5, 8];

#[derive(Clone, Copy, Debug, PartialEq, Eq)]
pub struct SK {
    pub hk: Hk,
    pub a: usize, // actor decl index (usize::MAX = none)
}

const NONE: SK = SK { hk: Hk::None, a: usize::MAX };

/// op weights of the general generator
#[derive(Clone, Debug)]
pub struct W {
    pub send: u32,
    pub call: u32,
    pub ping: u32,
    pub force_send: u32,
    pub stop: u32,
    pub halt: u32,
    pub consume: u32,
    pub consume_sync: u32,
    pub restart: u32,
    pub clone: u32,
    pub downgrade: u32,
    pub upgrade: u32,
    pub conv: u32,
    pub detach: u32,
    pub to_addr: u32,
    pub drop: u32,
    pub drop_all: u32,
    pub await_: u32,
    pub join: u32,
    pub query: u32,
    pub yield_: u32,
    pub sleep: u32,
    pub fork: u32,
    /// percentage of send/call/ping/join ops wrapped in cancel-after-k-polls
    pub cancel_pct: u32,
    // script step weights
    pub s_none: u32,
    pub s_yield: u32,
    pub s_sleep: u32,
    pub s_ctx_stop: u32,
    pub s_ctx_restart: u32,
    pub s_interval: u32,
    pub s_interval_with: u32,
    pub s_delayed_send: u32,
    pub s_delayed_exec: u32,
    pub s_weak_self: u32,
    pub s_panic: u32,
}

impl W {
    pub fn zero() -> W {
        W {
            send: 0,
            call: 0,
            ping: 0,
            force_send: 0,
            stop: 0,
            halt: 0,
            consume: 0,
            consume_sync: 0,
            restart: 0,
            clone: 0,
            downgrade: 0,
            upgrade: 0,
            conv: 0,
            detach: 0,
            to_addr: 0,
            drop: 0,
            drop_all: 0,
            await_: 0,
            join: 0,
            query: 0,
            yield_: 0,
            sleep: 0,
            fork: 0,
            cancel_pct: 0,
            s_none: 10,
            s_yield: 0,
            s_sleep: 0,
            s_ctx_stop: 0,
            s_ctx_restart: 0,
            s_interval: 0,
            s_interval_with: 0,
            s_delayed_send: 0,
            s_delayed_exec: 0,
            s_weak_self: 0,
            s_panic: 0,
        }
    }
}

pub struct Shape {
    pub clients: (u64, u64),
    pub ops: (u64, u64),
    /// each client gets a final Join/Await with this percentage
    pub final_wait_pct: u32,
}

pub struct G<'r> {
    pub rng: &'r mut Rng,
    pub prog: Program,
    /// static slot kinds per client
    pub sk: Vec<Vec<SK>>,
}

impl<'r> G<'r> {
    pub fn new(rng: &'r mut Rng) -> Self {
        G { rng, prog: Program::new(), sk: vec![] }
    }

    pub fn dur(&mut self) -> u64 {
        *self.rng.pick(&LATTICE)
    }
    pub fn dur_pos(&mut self) -> u64 {
        *self.rng.pick(&LATTICE[1..])
    }

    /// lay out the initial slot tables after `prog.actors` and the number of clients are fixed
    pub fn layout(&mut self, nclients: usize) {
        let n = self.prog.actors.len();
        self.sk = (0..nclients).map(|_| vec![NONE; 2 * n]).collect();
        for (ai, d) in self.prog.actors.iter().enumerate() {
            if !d.at_setup {
                continue;
            }
            for h in &d.holders {
                if (*h as usize) < nclients {
                    self.sk[*h as usize][ai] = SK { hk: Hk::Addr, a: ai };
                }
            }
            if d.entry.owning() && (d.owner as usize) < nclients {
                self.sk[d.owner as usize][n + ai] = SK { hk: Hk::Owning, a: ai };
            }
        }
        self.prog.clients = (0..nclients).map(|_| vec![]).collect();
    }

    pub fn slots_of(&self, c: usize, f: impl Fn(&SK) -> bool) -> Vec<u16> {
        self.sk[c].iter().enumerate().filter(|(_, k)| f(k)).map(|(i, _)| i as u16).collect()
    }

    pub fn script(&mut self, w: &W, restartable: bool, stream: bool) -> Vec<PStep> {
        let n = self.rng.weighted(&[50, 35, 15]);
        let mut v = vec![];
        for _ in 0..n {
            let ws = [
                w.s_none,
                w.s_yield,
                w.s_sleep,
                w.s_ctx_stop,
                if restartable && !stream { w.s_ctx_restart } else { 0 },
                w.s_interval,
                w.s_interval_with,
                w.s_delayed_send,
                w.s_delayed_exec,
                w.s_weak_self,
                w.s_panic,
            ];
            match self.rng.weighted(&ws) {
                0 => {}
                1 => v.push(PStep::Yield),
                2 => {
                    let d = self.dur();
                    v.push(PStep::Sleep(d))
                }
                3 => v.push(PStep::CtxStop),
                4 => v.push(PStep::CtxRestart),
                5 => {
                    let d = self.dur_pos();
                    v.push(PStep::Interval(d))
                }
                6 => {
                    let d = self.dur_pos();
                    v.push(PStep::IntervalWith(d))
                }
                7 => {
                    let d = self.dur();
                    v.push(PStep::DelayedSend(d))
                }
                8 => {
                    let d = self.dur();
                    v.push(PStep::DelayedExec(d))
                }
                9 => v.push(PStep::WeakSelf),
                _ => v.push(PStep::Panic),
            }
        }
        v
    }

    fn cancel(&mut self, w: &W) -> Option<u8> {
        if self.rng.below(100) < w.cancel_pct as u64 { Some(self.rng.range(0, 2) as u8) } else { None }
    }

    /// append one random applicable op to client `c`; returns false if nothing applicable
    pub fn gen_op(&mut self, c: usize, w: &W) -> bool {
        let has = |g: &Self, f: &dyn Fn(&SK) -> bool| g.sk[c].iter().any(|k| f(k));
        let submit = |k: &SK| matches!(k.hk, Hk::Addr | Hk::Owning | Hk::Sender | Hk::WeakSender);
        let callk = |k: &SK| matches!(k.hk, Hk::Addr | Hk::Owning | Hk::Caller | Hk::WeakCaller);
        let addrk = |k: &SK| k.hk == Hk::Addr;
        let addr_or_own = |k: &SK| matches!(k.hk, Hk::Addr | Hk::Owning);
        let ownk = |k: &SK| k.hk == Hk::Owning;
        let weakany = |k: &SK| matches!(k.hk, Hk::Weak | Hk::WeakSender | Hk::WeakCaller);
        let stopk = |k: &SK| matches!(k.hk, Hk::Addr | Hk::Weak);
        let clonek = |k: &SK| matches!(k.hk, Hk::Addr | Hk::Weak | Hk::Sender | Hk::Caller | Hk::WeakSender | Hk::WeakCaller);
        let downk = |k: &SK| matches!(k.hk, Hk::Addr | Hk::Owning | Hk::Sender | Hk::Caller);
        let anyk = |k: &SK| k.hk != Hk::None;
        let joink = |k: &SK| matches!(k.hk, Hk::Owning | Hk::Join);
        let queryk = |k: &SK| matches!(k.hk, Hk::Addr | Hk::Weak);
        let wsk = |k: &SK| k.hk == Hk::WeakSender;
        let restartk = |g: &Self, k: &SK| k.hk == Hk::Addr && g.prog.actors[k.a].stream.is_none() && !g.prog.actors[k.a].entry.stream();
        let ws = [
            if has(self, &submit) { w.send } else { 0 },
            if has(self, &callk) { w.call } else { 0 },
            if has(self, &addr_or_own) { w.ping } else { 0 },
            if has(self, &wsk) { w.force_send } else { 0 },
            if has(self, &stopk) { w.stop } else { 0 },
            if has(self, &stopk) { w.halt } else { 0 },
            if has(self, &ownk) { w.consume } else { 0 },
            if has(self, &ownk) { w.consume_sync } else { 0 },
            if self.sk[c].iter().any(|k| restartk(self, k)) { w.restart } else { 0 },
            if has(self, &clonek) { w.clone } else { 0 },
            if has(self, &downk) { w.downgrade } else { 0 },
            if has(self, &weakany) { w.upgrade } else { 0 },
            if has(self, &addr_or_own) { w.conv } else { 0 },
            if has(self, &ownk) { w.detach } else { 0 },
            if has(self, &ownk) { w.to_addr } else { 0 },
            if has(self, &anyk) { w.drop } else { 0 },
            w.drop_all,
            if has(self, &addrk) { w.await_ } else { 0 },
            if has(self, &joink) { w.join } else { 0 },
            if has(self, &queryk) { w.query } else { 0 },
            w.yield_,
            w.sleep,
            if has(self, &anyk) { w.fork } else { 0 },
        ];
        if ws.iter().all(|x| *x == 0) {
            return false;
        }
        let choice = self.rng.weighted(&ws);
        let pick = |g: &mut Self, f: &dyn Fn(&SK) -> bool| -> u16 {
            let v = g.slots_of(c, f);
            *g.rng.pick(&v)
        };
        let push = |g: &mut Self, k: SK| g.sk[c].push(k);
        match choice {
            0 => {
                let slot = pick(self, &submit);
                let a = self.sk[c][slot as usize].a;
                let (restartable, stream) = (true, self.prog.actors[a].entry.stream());
                let script = self.script(w, restartable, stream);
                let cancel = self.cancel(w);
                self.prog.clients[c].push(Op::Send { slot, script, cancel });
            }
            1 => {
                let slot = pick(self, &callk);
                let a = self.sk[c][slot as usize].a;
                let stream = self.prog.actors[a].entry.stream();
                let script = self.script(w, true, stream);
                let cancel = self.cancel(w);
                self.prog.clients[c].push(Op::Call { slot, script, cancel });
            }
            2 => {
                let slot = pick(self, &addr_or_own);
                let cancel = self.cancel(w);
                self.prog.clients[c].push(Op::Ping { slot, cancel });
            }
            3 => {
                let slot = pick(self, &wsk);
                self.prog.clients[c].push(Op::ForceSend { slot });
            }
            4 => {
                let slot = pick(self, &stopk);
                self.prog.clients[c].push(Op::Stop { slot });
            }
            5 => {
                let slot = pick(self, &stopk);
                if self.sk[c][slot as usize].hk == Hk::Addr {
                    self.sk[c][slot as usize] = NONE;
                }
                self.prog.clients[c].push(Op::Halt { slot });
            }
            6 => {
                let slot = pick(self, &ownk);
                self.sk[c][slot as usize] = NONE;
                self.prog.clients[c].push(Op::Consume { slot });
            }
            7 => {
                let slot = pick(self, &ownk);
                let a = self.sk[c][slot as usize].a;
                self.sk[c][slot as usize] = NONE;
                push(self, SK { hk: Hk::Join, a });
                self.prog.clients[c].push(Op::ConsumeSync { slot });
            }
            8 => {
                let v: Vec<u16> = self.sk[c].iter().enumerate().filter(|(_, k)| restartk(self, k)).map(|(i, _)| i as u16).collect();
                let slot = *self.rng.pick(&v);
                self.prog.clients[c].push(Op::Restart { slot });
            }
            9 => {
                let slot = pick(self, &clonek);
                let k = self.sk[c][slot as usize];
                push(self, k);
                self.prog.clients[c].push(Op::Clone { slot });
            }
            10 => {
                let slot = pick(self, &downk);
                let k = self.sk[c][slot as usize];
                let nk = match k.hk {
                    Hk::Sender => Hk::WeakSender,
                    Hk::Caller => Hk::WeakCaller,
                    _ => Hk::Weak,
                };
                push(self, SK { hk: nk, a: k.a });
                self.prog.clients[c].push(Op::Downgrade { slot });
            }
            11 => {
                let slot = pick(self, &weakany);
                let k = self.sk[c][slot as usize];
                let nk = match k.hk {
                    Hk::WeakSender => Hk::Sender,
                    Hk::WeakCaller => Hk::Caller,
                    _ => Hk::Addr,
                };
                push(self, SK { hk: nk, a: k.a });
                self.prog.clients[c].push(Op::Upgrade { slot });
            }
            12 => {
                let slot = pick(self, &addr_or_own);
                let k = self.sk[c][slot as usize];
                let (op, nk) = match self.rng.below(4) {
                    0 => (Op::ToSender { slot }, Hk::Sender),
                    1 => (Op::ToCaller { slot }, Hk::Caller),
                    2 => (Op::ToWeakSender { slot }, Hk::WeakSender),
                    _ => (Op::ToWeakCaller { slot }, Hk::WeakCaller),
                };
                push(self, SK { hk: nk, a: k.a });
                self.prog.clients[c].push(op);
            }
            13 => {
                let slot = pick(self, &ownk);
                let a = self.sk[c][slot as usize].a;
                self.sk[c][slot as usize] = NONE;
                push(self, SK { hk: Hk::Addr, a });
                self.prog.clients[c].push(Op::Detach { slot });
            }
            14 => {
                let slot = pick(self, &ownk);
                let a = self.sk[c][slot as usize].a;
                push(self, SK { hk: Hk::Addr, a });
                self.prog.clients[c].push(Op::ToAddr { slot });
            }
            15 => {
                let slot = pick(self, &anyk);
                self.sk[c][slot as usize] = NONE;
                self.prog.clients[c].push(Op::Drop { slot });
            }
            16 => {
                for k in self.sk[c].iter_mut() {
                    *k = NONE;
                }
                self.prog.clients[c].push(Op::DropAll);
            }
            17 => {
                let slot = pick(self, &addrk);
                let by_ref = self.rng.chance(1, 3);
                if !by_ref {
                    self.sk[c][slot as usize] = NONE;
                }
                self.prog.clients[c].push(Op::Await { slot, by_ref });
            }
            18 => {
                let slot = pick(self, &joink);
                if self.sk[c][slot as usize].hk == Hk::Join {
                    self.sk[c][slot as usize] = NONE;
                }
                let cancel = self.cancel(w);
                self.prog.clients[c].push(Op::Join { slot, cancel });
            }
            19 => {
                let slot = pick(self, &queryk);
                let running = self.sk[c][slot as usize].hk == Hk::Addr && self.rng.chance(1, 2);
                self.prog.clients[c].push(Op::Query { slot, running });
            }
            20 => self.prog.clients[c].push(Op::Yield),
            21 => {
                let d = self.dur();
                self.prog.clients[c].push(Op::Sleep(d));
            }
            _ => {
                // fork: move 1-2 random handles to a new client which runs 1-3 ops
                let mut moved = vec![];
                let n = self.rng.range(1, 2);
                for _ in 0..n {
                    let v = self.slots_of(c, &anyk);
                    if v.is_empty() {
                        break;
                    }
                    let s = *self.rng.pick(&v);
                    moved.push(s);
                }
                moved.sort();
                moved.dedup();
                // sub-generator over a temporary client
                let nc = self.sk.len();
                let mut table = vec![NONE; self.sk[c].len()];
                for m in &moved {
                    table[*m as usize] = self.sk[c][*m as usize];
                    self.sk[c][*m as usize] = NONE;
                }
                self.sk.push(table);
                self.prog.clients.push(vec![]);
                let k = self.rng.range(1, 3);
                let mut w2 = w.clone();
                w2.fork = 0;
                for _ in 0..k {
                    self.gen_op(nc, &w2);
                }
                let ops = self.prog.clients.pop().unwrap_or_default();
                self.sk.pop();
                self.prog.clients[c].push(Op::Fork { ops, moved });
            }
        }
        true
    }

    pub fn gen_clients(&mut self, w: &W, shape: &Shape) {
        let n = self.prog.clients.len();
        for c in 0..n {
            let k = self.rng.range(shape.ops.0, shape.ops.1);
            for _ in 0..k {
                self.gen_op(c, w);
            }
            if self.rng.below(100) < shape.final_wait_pct as u64 {
                // final wait: join the owning address if any, else await an address
                let own = self.slots_of(c, |k| matches!(k.hk, Hk::Owning | Hk::Join));
                let addrs = self.slots_of(c, |k| k.hk == Hk::Addr);
                if !own.is_empty() && self.rng.chance(2, 3) {
                    let slot = *self.rng.pick(&own);
                    self.prog.clients[c].push(Op::Join { slot, cancel: None });
                } else if !addrs.is_empty() {
                    let slot = *self.rng.pick(&addrs);
                    self.sk[c][slot as usize] = NONE;
                    self.prog.clients[c].push(Op::Await { slot, by_ref: false });
                }
            }
        }
    }
}

pub fn mailbox_kind(rng: &mut Rng) -> Option<usize> {
    if rng.chance(1, 3) { None } else { Some(rng.below(4) as usize) }
}

pub fn rand_sstep_timers(rng: &mut Rng, n: u64) -> Vec<SStep> {
    let mut v = vec![];
    for _ in 0..n {
        let d = *rng.pick(&LATTICE[1..]);
        v.push(match rng.below(4) {
            0 => SStep::Interval(d),
            1 => SStep::IntervalWith(d),
            2 => SStep::DelayedSend(d),
            _ => SStep::DelayedExec(d),
        });
    }
    v
}

/// profile "mailbox": concurrent clients mixing both submission paths through all handle kinds
pub fn mailbox(rng: &mut Rng) -> Program {
    let mut g = G::new(rng);
    let nclients = g.rng.range(1, 4) as usize;
    let mut a = ActorDecl::plain(1);
    a.mailbox = mailbox_kind(g.rng);
    a.entry = if g.rng.chance(1, 2) { Entry::BuilderOwning } else { Entry::Builder };
    a.holders = (0..nclients as u16).collect();
    a.owner = g.rng.below(nclients as u64) as u16;
    if g.rng.chance(1, 4) {
        a.started = rand_sstep_timers(g.rng, 1);
    }
    a.aux_work = if g.rng.chance(1, 4) { 1 } else { 0 };
    g.prog.actors.push(a);
    g.layout(nclients);
    let mut w = W::zero();
    w.send = 30;
    w.call = 30;
    w.ping = 8;
    w.force_send = 6;
    w.conv = 14;
    w.clone = 3;
    w.downgrade = 4;
    w.upgrade = 4;
    w.yield_ = 6;
    w.sleep = 4;
    w.stop = 2;
    w.to_addr = 2;
    w.fork = 2;
    w.cancel_pct = 8;
    w.s_none = 30;
    w.s_yield = 20;
    w.s_sleep = 20;
    w.s_interval = 4;
    w.s_interval_with = 3;
    w.s_delayed_send = 3;
    g.gen_clients(&w, &Shape { clients: (1, 4), ops: (2, 8), final_wait_pct: 30 });
    g.prog
}

fn rand_entry(rng: &mut Rng, allow_stream: bool) -> Entry {
    let plain = [Entry::Spawn, Entry::SpawnOwning, Entry::Builder, Entry::Builder, Entry::BuilderOwning, Entry::BuilderOwning, Entry::SpawnDefault, Entry::DefaultSpawnOwning];
    let stream = [Entry::OnStream, Entry::OwningOnStream, Entry::BuilderOnStream, Entry::BuilderOnStreamOwning, Entry::BuilderWithStream, Entry::BuilderWithStreamOwning];
    if allow_stream && rng.chance(1, 4) { *rng.pick(&stream) } else { *rng.pick(&plain) }
}

pub fn rand_stream(rng: &mut Rng) -> crate::actors::StreamSpec {
    use crate::actors::StreamSpec;
    match rng.below(6) {
        0 => StreamSpec { bursts: vec![], repeat: false, ends: true, always_ready: false }, // empty
        1 => StreamSpec { bursts: vec![(0, rng.range(1, 5) as u32)], repeat: false, ends: true, always_ready: false }, // finite, ready
        2 => StreamSpec { bursts: vec![], repeat: false, ends: false, always_ready: false }, // never ready
        3 => StreamSpec { bursts: vec![(*rng.pick(&LATTICE[1..]), 1)], repeat: true, ends: false, always_ready: false }, // ticking forever
        4 => {
            let n = rng.range(1, 3);
            let bursts = (0..n).map(|_| (*rng.pick(&LATTICE), rng.range(0, 3) as u32)).collect();
            StreamSpec { bursts, repeat: false, ends: rng.chance(1, 2), always_ready: false }
        }
        _ => StreamSpec { bursts: vec![(*rng.pick(&LATTICE), rng.range(1, 4) as u32), (*rng.pick(&LATTICE[1..]), rng.range(1, 3) as u32)], repeat: false, ends: true, always_ready: false },
    }
}

fn rand_actor(rng: &mut Rng, tag: u32, nclients: usize, allow_stream: bool) -> ActorDecl {
    let mut a = ActorDecl::plain(tag);
    a.entry = rand_entry(rng, allow_stream);
    a.mailbox = mailbox_kind(rng);
    if a.entry.stream() {
        a.stream = Some(rand_stream(rng));
        a.strategy = Strategy::NonRestartable;
    } else if a.entry.builder() {
        a.strategy = *rng.pick(&[Strategy::RestartOnly, Strategy::RestartOnly, Strategy::Recreate, Strategy::NonRestartable]);
    }
    // holders: random non-empty subset (or none when owning: only the OwningAddr exists)
    let mut holders: Vec<u16> = (0..nclients as u16).filter(|_| rng.chance(2, 3)).collect();
    if holders.is_empty() && !(a.entry.owning() && rng.chance(1, 2)) {
        holders.push(rng.below(nclients as u64) as u16);
    }
    a.holders = holders;
    a.owner = rng.below(nclients as u64) as u16;
    if rng.chance(1, 3) {
        let n = rng.range(1, 2);
        a.started = rand_sstep_timers(rng, n);
    }
    if rng.chance(1, 6) {
        a.started.push(SStep::Yield);
    }
    if rng.chance(1, 8) {
        a.stopped.push(if rng.chance(1, 2) { SStep::Yield } else { SStep::Sleep(*rng.pick(&LATTICE)) });
    }
    a.aux_work = if rng.chance(1, 4) { *rng.pick(&LATTICE[..3]) } else { 0 };
    a
}

/// profile "lifecycle": every termination cause x mailbox kind x strategy x plain/stream
pub fn lifecycle(rng: &mut Rng) -> Program {
    let mut g = G::new(rng);
    let nclients = g.rng.range(1, 3) as usize;
    let nact = g.rng.weighted(&[70, 30]) + 1;
    for t in 0..nact {
        let a = rand_actor(g.rng, 1 + t as u32, nclients, true);
        g.prog.actors.push(a);
    }
    // recreate strategy of k=0 actors uses the default spec: one per program is enough (spec looked up by tag)
    g.layout(nclients);
    let mut w = W::zero();
    w.send = 22;
    w.call = 18;
    w.ping = 6;
    w.force_send = 3;
    w.stop = 9;
    w.halt = 5;
    w.consume = 3;
    w.consume_sync = 2;
    w.restart = 6;
    w.clone = 4;
    w.downgrade = 5;
    w.upgrade = 4;
    w.conv = 6;
    w.detach = 2;
    w.to_addr = 2;
    w.drop = 8;
    w.drop_all = 2;
    w.await_ = 5;
    w.join = 4;
    w.query = 2;
    w.yield_ = 6;
    w.sleep = 5;
    w.fork = 2;
    w.cancel_pct = 5;
    w.s_none = 40;
    w.s_yield = 14;
    w.s_sleep = 16;
    w.s_ctx_stop = 6;
    w.s_ctx_restart = 5;
    w.s_interval = 4;
    w.s_interval_with = 3;
    w.s_delayed_send = 3;
    w.s_delayed_exec = 2;
    w.s_weak_self = 2;
    g.gen_clients(&w, &Shape { clients: (1, 3), ops: (2, 8), final_wait_pct: 60 });
    g.prog
}

/// profile "handles": conversion / clone / drop programs with timers active
pub fn handles(rng: &mut Rng) -> Program {
    let mut g = G::new(rng);
    let nclients = g.rng.range(1, 3) as usize;
    let mut a = rand_actor(g.rng, 1, nclients, false);
    if g.rng.chance(1, 2) {
        let n = g.rng.range(1, 3);
        a.started = rand_sstep_timers(g.rng, n);
    }
    g.prog.actors.push(a);
    g.layout(nclients);
    let mut w = W::zero();
    w.send = 10;
    w.call = 8;
    w.ping = 4;
    w.force_send = 3;
    w.clone = 10;
    w.downgrade = 12;
    w.upgrade = 14;
    w.conv = 16;
    w.detach = 4;
    w.to_addr = 4;
    w.drop = 22;
    w.drop_all = 5;
    w.yield_ = 6;
    w.sleep = 6;
    w.fork = 6;
    w.query = 3;
    w.s_none = 50;
    w.s_yield = 10;
    w.s_sleep = 15;
    w.s_interval = 5;
    w.s_interval_with = 4;
    w.s_delayed_send = 4;
    w.s_delayed_exec = 3;
    w.s_weak_self = 6;
    g.gen_clients(&w, &Shape { clients: (1, 3), ops: (3, 10), final_wait_pct: 0 });
    // make sure everything is eventually dropped by some clients while others linger
    for c in 0..g.prog.clients.len() {
        if g.rng.chance(1, 2) {
            let d = g.dur();
            g.prog.clients[c].push(Op::Sleep(d));
            g.prog.clients[c].push(Op::DropAll);
            // probe weak handles after the drop
            g.prog.clients[c].push(Op::Yield);
        }
    }
    g.prog
}

/// profile "backpressure": bounded n in 0..4 (some unbounded), 1-4 senders, slow handlers
pub fn backpressure(rng: &mut Rng) -> Program {
    let mut g = G::new(rng);
    let nclients = g.rng.range(1, 4) as usize;
    let mut a = ActorDecl::plain(1);
    a.mailbox = if g.rng.chance(1, 5) { None } else { Some(g.rng.below(5) as usize) };
    a.entry = Entry::Builder;
    a.holders = (0..nclients as u16).collect();
    if g.rng.chance(1, 3) {
        let d = g.dur_pos();
        a.started = vec![if g.rng.chance(1, 2) { SStep::IntervalWith(d) } else { SStep::Interval(d) }];
    }
    a.aux_work = if g.rng.chance(1, 3) { 1 } else { 0 };
    g.prog.actors.push(a);
    g.layout(nclients);
    let mut w = W::zero();
    w.send = 60;
    w.call = 8;
    w.ping = 4;
    w.force_send = 4;
    w.conv = 10;
    w.downgrade = 3;
    w.upgrade = 3;
    w.stop = 2;
    w.yield_ = 4;
    w.sleep = 3;
    w.cancel_pct = 4;
    w.s_none = 25;
    w.s_yield = 15;
    w.s_sleep = 40;
    w.s_interval_with = 3;
    g.gen_clients(&w, &Shape { clients: (1, 4), ops: (3, 9), final_wait_pct: 0 });
    g.prog
}

/// profile "owning": owning entries with join / consume / detach at any position
pub fn owning(rng: &mut Rng) -> Program {
    let mut g = G::new(rng);
    let nclients = g.rng.range(1, 3) as usize;
    let mut a = rand_actor(g.rng, 1, nclients, true);
    a.entry = match (a.entry.stream(), g.rng.below(3)) {
        (true, 0) => Entry::OwningOnStream,
        (true, 1) => Entry::BuilderOnStreamOwning,
        (true, _) => Entry::BuilderWithStreamOwning,
        (false, 0) => Entry::SpawnOwning,
        (false, 1) => Entry::DefaultSpawnOwning,
        (false, _) => Entry::BuilderOwning,
    };
    g.prog.actors.push(a);
    g.layout(nclients);
    let mut w = W::zero();
    w.send = 18;
    w.call = 14;
    w.ping = 4;
    w.stop = 8;
    w.halt = 3;
    w.consume = 8;
    w.consume_sync = 6;
    w.restart = 3;
    w.conv = 6;
    w.detach = 8;
    w.to_addr = 8;
    w.drop = 6;
    w.join = 16;
    w.await_ = 3;
    w.yield_ = 5;
    w.sleep = 4;
    w.fork = 3;
    w.cancel_pct = 8;
    w.s_none = 40;
    w.s_yield = 15;
    w.s_sleep = 20;
    w.s_ctx_stop = 8;
    w.s_ctx_restart = 3;
    w.s_interval = 3;
    g.gen_clients(&w, &Shape { clients: (1, 3), ops: (2, 8), final_wait_pct: 70 });
    g.prog
}
