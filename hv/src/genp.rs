//! Seeded program generators.  A general weighted generator plus structured per-property
//! families (added in `families.rs`).
use crate::actors::SStep;
use crate::log::Hk;
use crate::prog::*;
use crate::rng::Rng;

pub const LATTICE: [u64; 6] = [0, 1, 2, 3, 5, 8];

#[derive(Clone, Copy, Debug, PartialEq, Eq)]
pub struct SK {
    pub hk: Hk,
    pub a: usize, // actor decl index (usize::MAX = none)
}

const NONE: SK = SK { hk: Hk::None, a: usize::MAX };

/// op weights of the general generator
#[derive(Clone, Debug)]
pub struct W {
    pub send: u32,
    pub call: u32,
    pub ping: u32,
    pub force_send: u32,
    pub stop: u32,
    pub halt: u32,
    pub consume: u32,
    pub consume_sync: u32,
    pub restart: u32,
    pub clone: u32,
    pub downgrade: u32,
    pub upgrade: u32,
    pub conv: u32,
    pub detach: u32,
    pub to_addr: u32,
    pub drop: u32,
    pub drop_all: u32,
    pub await_: u32,
    pub join: u32,
    pub join_park: u32,
    pub send_park: u32,
    pub query: u32,
    pub yield_: u32,
    pub sleep: u32,
    pub fork: u32,
    /// percentage of send/call/ping/join ops wrapped in cancel-after-k-polls
    pub cancel_pct: u32,
    // script step weights
    pub s_none: u32,
    pub s_yield: u32,
    pub s_sleep: u32,
    pub s_ctx_stop: u32,
    pub s_ctx_restart: u32,
    pub s_interval: u32,
    pub s_interval_with: u32,
    pub s_delayed_send: u32,
    pub s_delayed_exec: u32,
    pub s_weak_self: u32,
    pub s_panic: u32,
    pub s_send_children: u32,
}

impl W {
    pub fn zero() -> W {
        W {
            send: 0,
            call: 0,
            ping: 0,
            force_send: 0,
            stop: 0,
            halt: 0,
            consume: 0,
            consume_sync: 0,
            restart: 0,
            clone: 0,
            downgrade: 0,
            upgrade: 0,
            conv: 0,
            detach: 0,
            to_addr: 0,
            drop: 0,
            drop_all: 0,
            await_: 0,
            join: 0,
            join_park: 0,
            send_park: 0,
            query: 0,
            yield_: 0,
            sleep: 0,
            fork: 0,
            cancel_pct: 0,
            s_none: 10,
            s_yield: 0,
            s_sleep: 0,
            s_ctx_stop: 0,
            s_ctx_restart: 0,
            s_interval: 0,
            s_interval_with: 0,
            s_delayed_send: 0,
            s_delayed_exec: 0,
            s_weak_self: 0,
            s_panic: 0,
            s_send_children: 0,
        }
    }
}

pub struct Shape {
    pub clients: (u64, u64),
    pub ops: (u64, u64),
    /// each client gets a final Join/Await with this percentage
    pub final_wait_pct: u32,
}

pub struct G<'r> {
    pub rng: &'r mut Rng,
    pub prog: Program,
    /// static slot kinds per client
    pub sk: Vec<Vec<SK>>,
}

impl<'r> G<'r> {
    pub fn new(rng: &'r mut Rng) -> Self {
        G { rng, prog: Program::new(), sk: vec![] }
    }

    pub fn dur(&mut self) -> u64 {
        *self.rng.pick(&LATTICE)
    }
    pub fn dur_pos(&mut self) -> u64 {
        *self.rng.pick(&LATTICE[1..])
    }

    /// lay out the initial slot tables after `prog.actors` and the number of clients are fixed
    pub fn layout(&mut self, nclients: usize) {
        let n = self.prog.actors.len();
        self.sk = (0..nclients).map(|_| vec![NONE; 2 * n]).collect();
        for (ai, d) in self.prog.actors.iter().enumerate() {
            if !d.at_setup {
                continue;
            }
            for h in &d.holders {
                if (*h as usize) < nclients {
                    self.sk[*h as usize][ai] = SK { hk: Hk::Addr, a: ai };
                }
            }
            if d.entry.owning() && (d.owner as usize) < nclients {
                self.sk[d.owner as usize][n + ai] = SK { hk: Hk::Owning, a: ai };
            }
        }
        self.prog.clients = (0..nclients).map(|_| vec![]).collect();
    }

    pub fn slots_of(&self, c: usize, f: impl Fn(&SK) -> bool) -> Vec<u16> {
        self.sk[c].iter().enumerate().filter(|(_, k)| f(k)).map(|(i, _)| i as u16).collect()
    }

    pub fn script(&mut self, w: &W, restartable: bool, stream: bool) -> Vec<PStep> {
        let n = self.rng.weighted(&[50, 35, 15]);
        let mut v = vec![];
        for _ in 0..n {
            let ws = [
                w.s_none,
                w.s_yield,
                w.s_sleep,
                w.s_ctx_stop,
                if restartable && !stream { w.s_ctx_restart } else { 0 },
                w.s_interval,
                w.s_interval_with,
                w.s_delayed_send,
                w.s_delayed_exec,
                w.s_weak_self,
                w.s_panic,
                w.s_send_children,
            ];
            match self.rng.weighted(&ws) {
                0 => {}
                1 => v.push(PStep::Yield),
                2 => {
                    let d = self.dur();
                    v.push(PStep::Sleep(d))
                }
                3 => v.push(PStep::CtxStop),
                4 => v.push(PStep::CtxRestart),
                5 => {
                    let d = self.dur_pos();
                    v.push(PStep::Interval(d))
                }
                6 => {
                    let d = self.dur_pos();
                    v.push(PStep::IntervalWith(d))
                }
                7 => {
                    let d = self.dur();
                    v.push(PStep::DelayedSend(d))
                }
                8 => {
                    let d = self.dur();
                    v.push(PStep::DelayedExec(d))
                }
                9 => v.push(PStep::WeakSelf),
                10 => v.push(PStep::Panic),
                _ => {
                    let t = self.rng.below(3) as u8;
                    v.push(PStep::SendToChildren(t))
                }
            }
        }
        v
    }

    fn cancel(&mut self, w: &W) -> Option<u8> {
        if self.rng.below(100) < w.cancel_pct as u64 { Some(self.rng.range(0, 2) as u8) } else { None }
    }

    /// append one random applicable op to client `c`; returns false if nothing applicable
    pub fn gen_op(&mut self, c: usize, w: &W) -> bool {
        let has = |g: &Self, f: &dyn Fn(&SK) -> bool| g.sk[c].iter().any(|k| f(k));
        let submit = |k: &SK| matches!(k.hk, Hk::Addr | Hk::Owning | Hk::Sender | Hk::WeakSender);
        let callk = |k: &SK| matches!(k.hk, Hk::Addr | Hk::Owning | Hk::Caller | Hk::WeakCaller);
        let addrk = |k: &SK| k.hk == Hk::Addr;
        let addr_or_own = |k: &SK| matches!(k.hk, Hk::Addr | Hk::Owning);
        let ownk = |k: &SK| k.hk == Hk::Owning;
        let weakany = |k: &SK| matches!(k.hk, Hk::Weak | Hk::WeakSender | Hk::WeakCaller);
        let stopk = |k: &SK| matches!(k.hk, Hk::Addr | Hk::Weak);
        let clonek = |k: &SK| matches!(k.hk, Hk::Addr | Hk::Weak | Hk::Sender | Hk::Caller | Hk::WeakSender | Hk::WeakCaller);
        let downk = |k: &SK| matches!(k.hk, Hk::Addr | Hk::Owning | Hk::Sender | Hk::Caller);
        let anyk = |k: &SK| k.hk != Hk::None;
        let joink = |k: &SK| matches!(k.hk, Hk::Owning | Hk::Join);
        let queryk = |k: &SK| matches!(k.hk, Hk::Addr | Hk::Weak);
        let wsk = |k: &SK| k.hk == Hk::WeakSender;
        let restartk = |g: &Self, k: &SK| k.hk == Hk::Addr && g.prog.actors[k.a].stream.is_none() && !g.prog.actors[k.a].entry.stream();
        let ws = [
            if has(self, &submit) { w.send } else { 0 },
            if has(self, &callk) { w.call } else { 0 },
            if has(self, &addr_or_own) { w.ping } else { 0 },
            if has(self, &wsk) { w.force_send } else { 0 },
            if has(self, &stopk) { w.stop } else { 0 },
            if has(self, &stopk) { w.halt } else { 0 },
            if has(self, &ownk) { w.consume } else { 0 },
            if has(self, &ownk) { w.consume_sync } else { 0 },
            if self.sk[c].iter().any(|k| restartk(self, k)) { w.restart } else { 0 },
            if has(self, &clonek) { w.clone } else { 0 },
            if has(self, &downk) { w.downgrade } else { 0 },
            if has(self, &weakany) { w.upgrade } else { 0 },
            if has(self, &addr_or_own) { w.conv } else { 0 },
            if has(self, &ownk) { w.detach } else { 0 },
            if has(self, &ownk) { w.to_addr } else { 0 },
            if has(self, &anyk) { w.drop } else { 0 },
            w.drop_all,
            if has(self, &addrk) { w.await_ } else { 0 },
            if has(self, &joink) { w.join } else { 0 },
            if has(self, &queryk) { w.query } else { 0 },
            w.yield_,
            w.sleep,
            if has(self, &anyk) { w.fork } else { 0 },
            if has(self, &ownk) { w.join_park } else { 0 },
            if has(self, &|k: &SK| k.hk == Hk::Sender) { w.send_park } else { 0 },
            if has(self, &|k: &SK| k.hk == Hk::Fut || k.hk == Hk::OwnFut) { 2 * w.send_park.max(w.join_park) } else { 0 },
            if has(self, &ownk) { w.join_park } else { 0 },
        ];
        if ws.iter().all(|x| *x == 0) {
            return false;
        }
        let choice = self.rng.weighted(&ws);
        let pick = |g: &mut Self, f: &dyn Fn(&SK) -> bool| -> u16 {
            let v = g.slots_of(c, f);
            *g.rng.pick(&v)
        };
        let push = |g: &mut Self, k: SK| g.sk[c].push(k);
        match choice {
            0 => {
                let slot = pick(self, &submit);
                let a = self.sk[c][slot as usize].a;
                let (restartable, stream) = (true, self.prog.actors[a].entry.stream());
                let script = self.script(w, restartable, stream);
                let cancel = self.cancel(w);
                self.prog.clients[c].push(Op::Send { slot, script, cancel });
            }
            1 => {
                let slot = pick(self, &callk);
                let a = self.sk[c][slot as usize].a;
                let stream = self.prog.actors[a].entry.stream();
                let script = self.script(w, true, stream);
                let cancel = self.cancel(w);
                self.prog.clients[c].push(Op::Call { slot, script, cancel });
            }
            2 => {
                let slot = pick(self, &addr_or_own);
                let cancel = self.cancel(w);
                self.prog.clients[c].push(Op::Ping { slot, cancel });
            }
            3 => {
                let slot = pick(self, &wsk);
                self.prog.clients[c].push(Op::ForceSend { slot });
            }
            4 => {
                let slot = pick(self, &stopk);
                self.prog.clients[c].push(Op::Stop { slot });
            }
            5 => {
                let slot = pick(self, &stopk);
                if self.sk[c][slot as usize].hk == Hk::Addr {
                    self.sk[c][slot as usize] = NONE;
                }
                self.prog.clients[c].push(Op::Halt { slot });
            }
            6 => {
                let slot = pick(self, &ownk);
                self.sk[c][slot as usize] = NONE;
                self.prog.clients[c].push(Op::Consume { slot });
            }
            7 => {
                let slot = pick(self, &ownk);
                let a = self.sk[c][slot as usize].a;
                self.sk[c][slot as usize] = NONE;
                push(self, SK { hk: Hk::Join, a });
                self.prog.clients[c].push(Op::ConsumeSync { slot });
            }
            8 => {
                let v: Vec<u16> = self.sk[c].iter().enumerate().filter(|(_, k)| restartk(self, k)).map(|(i, _)| i as u16).collect();
                let slot = *self.rng.pick(&v);
                self.prog.clients[c].push(Op::Restart { slot });
            }
            9 => {
                let slot = pick(self, &clonek);
                let k = self.sk[c][slot as usize];
                push(self, k);
                self.prog.clients[c].push(Op::Clone { slot });
            }
            10 => {
                let slot = pick(self, &downk);
                let k = self.sk[c][slot as usize];
                let nk = match k.hk {
                    Hk::Sender => Hk::WeakSender,
                    Hk::Caller => Hk::WeakCaller,
                    _ => Hk::Weak,
                };
                push(self, SK { hk: nk, a: k.a });
                self.prog.clients[c].push(Op::Downgrade { slot });
            }
            11 => {
                let slot = pick(self, &weakany);
                let k = self.sk[c][slot as usize];
                let nk = match k.hk {
                    Hk::WeakSender => Hk::Sender,
                    Hk::WeakCaller => Hk::Caller,
                    _ => Hk::Addr,
                };
                push(self, SK { hk: nk, a: k.a });
                self.prog.clients[c].push(Op::Upgrade { slot });
            }
            12 => {
                let slot = pick(self, &addr_or_own);
                let k = self.sk[c][slot as usize];
                let (op, nk) = match self.rng.below(4) {
                    0 => (Op::ToSender { slot }, Hk::Sender),
                    1 => (Op::ToCaller { slot }, Hk::Caller),
                    2 => (Op::ToWeakSender { slot }, Hk::WeakSender),
                    _ => (Op::ToWeakCaller { slot }, Hk::WeakCaller),
                };
                push(self, SK { hk: nk, a: k.a });
                self.prog.clients[c].push(op);
            }
            13 => {
                let slot = pick(self, &ownk);
                let a = self.sk[c][slot as usize].a;
                self.sk[c][slot as usize] = NONE;
                push(self, SK { hk: Hk::Addr, a });
                self.prog.clients[c].push(Op::Detach { slot });
            }
            14 => {
                let slot = pick(self, &ownk);
                let a = self.sk[c][slot as usize].a;
                push(self, SK { hk: Hk::Addr, a });
                self.prog.clients[c].push(Op::ToAddr { slot });
            }
            15 => {
                let slot = pick(self, &anyk);
                self.sk[c][slot as usize] = NONE;
                self.prog.clients[c].push(Op::Drop { slot });
            }
            16 => {
                for k in self.sk[c].iter_mut() {
                    *k = NONE;
                }
                self.prog.clients[c].push(Op::DropAll);
            }
            17 => {
                let slot = pick(self, &addrk);
                let by_ref = self.rng.chance(1, 3);
                if !by_ref {
                    self.sk[c][slot as usize] = NONE;
                }
                self.prog.clients[c].push(Op::Await { slot, by_ref });
            }
            18 => {
                let slot = pick(self, &joink);
                if self.sk[c][slot as usize].hk == Hk::Join {
                    self.sk[c][slot as usize] = NONE;
                }
                let cancel = self.cancel(w);
                self.prog.clients[c].push(Op::Join { slot, cancel });
            }
            19 => {
                let slot = pick(self, &queryk);
                let running = self.sk[c][slot as usize].hk == Hk::Addr && self.rng.chance(1, 2);
                self.prog.clients[c].push(Op::Query { slot, running });
            }
            20 => self.prog.clients[c].push(Op::Yield),
            21 => {
                let d = self.dur();
                self.prog.clients[c].push(Op::Sleep(d));
            }
            23 => {
                let slot = pick(self, &ownk);
                let a = self.sk[c][slot as usize].a;
                let polls = self.rng.range(0, 2) as u8;
                push(self, SK { hk: Hk::Join, a });
                self.prog.clients[c].push(Op::JoinPark { slot, polls });
            }
            24 => {
                let slot = pick(self, &|k: &SK| k.hk == Hk::Sender);
                let a = self.sk[c][slot as usize].a;
                let stream = self.prog.actors[a].entry.stream();
                let script = self.script(w, true, stream);
                let polls = self.rng.range(0, 2) as u8;
                push(self, SK { hk: Hk::Fut, a });
                self.prog.clients[c].push(Op::SendPark { slot, script, polls });
            }
            25 => {
                let slot = pick(self, &|k: &SK| k.hk == Hk::Fut || k.hk == Hk::OwnFut);
                self.sk[c][slot as usize] = NONE;
                self.prog.clients[c].push(Op::AwaitParked { slot });
            }
            26 => {
                let slot = pick(self, &ownk);
                let a = self.sk[c][slot as usize].a;
                self.sk[c][slot as usize] = NONE;
                push(self, SK { hk: Hk::OwnFut, a });
                self.prog.clients[c].push(Op::ConsumePark { slot });
            }
            _ => {
                // fork: move 1-2 random handles to a new client which runs 1-3 ops
                let mut moved = vec![];
                let n = self.rng.range(1, 2);
                for _ in 0..n {
                    let v = self.slots_of(c, &anyk);
                    if v.is_empty() {
                        break;
                    }
                    let s = *self.rng.pick(&v);
                    moved.push(s);
                }
                moved.sort();
                moved.dedup();
                // sub-generator over a temporary client
                let nc = self.sk.len();
                let mut table = vec![NONE; self.sk[c].len()];
                for m in &moved {
                    table[*m as usize] = self.sk[c][*m as usize];
                    self.sk[c][*m as usize] = NONE;
                }
                self.sk.push(table);
                self.prog.clients.push(vec![]);
                let k = self.rng.range(1, 3);
                let mut w2 = w.clone();
                w2.fork = 0;
                for _ in 0..k {
                    self.gen_op(nc, &w2);
                }
                let ops = self.prog.clients.pop().unwrap_or_default();
                self.sk.pop();
                self.prog.clients[c].push(Op::Fork { ops, moved });
            }
        }
        true
    }

    pub fn gen_clients(&mut self, w: &W, shape: &Shape) {
        let n = self.prog.clients.len();
        for c in 0..n {
            let k = self.rng.range(shape.ops.0, shape.ops.1);
            for _ in 0..k {
                self.gen_op(c, w);
            }
            if self.rng.below(100) < shape.final_wait_pct as u64 {
                // final wait: join the owning address if any, else await an address
                let own = self.slots_of(c, |k| matches!(k.hk, Hk::Owning | Hk::Join));
                let addrs = self.slots_of(c, |k| k.hk == Hk::Addr);
                if !own.is_empty() && self.rng.chance(2, 3) {
                    let slot = *self.rng.pick(&own);
                    self.prog.clients[c].push(Op::Join { slot, cancel: None });
                } else if !addrs.is_empty() {
                    let slot = *self.rng.pick(&addrs);
                    self.sk[c][slot as usize] = NONE;
                    self.prog.clients[c].push(Op::Await { slot, by_ref: false });
                }
            }
        }
    }
}

pub fn mailbox_kind(rng: &mut Rng) -> Option<usize> {
    if rng.chance(1, 3) { None } else { Some(rng.below(4) as usize) }
}

pub fn rand_sstep_timers(rng: &mut Rng, n: u64) -> Vec<SStep> {
    let mut v = vec![];
    for _ in 0..n {
        let d = *rng.pick(&LATTICE[1..]);
        v.push(match rng.below(4) {
            0 => SStep::Interval(d),
            1 => SStep::IntervalWith(d),
            2 => SStep::DelayedSend(d),
            _ => SStep::DelayedExec(d),
        });
    }
    v
}

/// profile "mailbox": concurrent clients mixing both submission paths through all handle kinds
pub fn mailbox(rng: &mut Rng) -> Program {
    let mut g = G::new(rng);
    let nclients = g.rng.range(1, 4) as usize;
    let mut a = ActorDecl::plain(1);
    a.mailbox = mailbox_kind(g.rng);
    a.entry = if g.rng.chance(1, 2) { Entry::BuilderOwning } else { Entry::Builder };
    a.holders = (0..nclients as u16).collect();
    a.owner = g.rng.below(nclients as u64) as u16;
    if g.rng.chance(1, 4) {
        a.started = rand_sstep_timers(g.rng, 1);
    }
    a.aux_work = if g.rng.chance(1, 4) { 1 } else { 0 };
    g.prog.actors.push(a);
    g.layout(nclients);
    let mut w = W::zero();
    w.send = 30;
    w.call = 30;
    w.ping = 8;
    w.force_send = 6;
    w.conv = 14;
    w.clone = 3;
    w.downgrade = 4;
    w.upgrade = 4;
    w.yield_ = 6;
    w.sleep = 4;
    w.stop = 2;
    w.to_addr = 2;
    w.fork = 2;
    w.cancel_pct = 8;
    w.s_none = 30;
    w.s_yield = 20;
    w.s_sleep = 20;
    w.s_interval = 4;
    w.s_interval_with = 3;
    w.s_delayed_send = 3;
    g.gen_clients(&w, &Shape { clients: (1, 4), ops: (2, 8), final_wait_pct: 30 });
    g.prog
}

fn rand_entry(rng: &mut Rng, allow_stream: bool) -> Entry {
    let plain = [Entry::Spawn, Entry::SpawnOwning, Entry::Builder, Entry::Builder, Entry::BuilderOwning, Entry::BuilderOwning, Entry::SpawnDefault, Entry::DefaultSpawnOwning];
    let stream = [Entry::OnStream, Entry::OwningOnStream, Entry::BuilderOnStream, Entry::BuilderOnStreamOwning, Entry::BuilderWithStream, Entry::BuilderWithStreamOwning];
    if allow_stream && rng.chance(1, 4) { *rng.pick(&stream) } else { *rng.pick(&plain) }
}

pub fn rand_stream(rng: &mut Rng) -> crate::actors::StreamSpec {
    use crate::actors::StreamSpec;
    match rng.below(6) {
        0 => StreamSpec { bursts: vec![], repeat: false, ends: true, always_ready: false }, // empty
        1 => StreamSpec { bursts: vec![(0, rng.range(1, 5) as u32)], repeat: false, ends: true, always_ready: false }, // finite, ready
        2 => StreamSpec { bursts: vec![], repeat: false, ends: false, always_ready: false }, // never ready
        3 => StreamSpec { bursts: vec![(*rng.pick(&LATTICE[1..]), 1)], repeat: true, ends: false, always_ready: false }, // ticking forever
        4 => {
            let n = rng.range(1, 3);
            let bursts = (0..n).map(|_| (*rng.pick(&LATTICE), rng.range(0, 3) as u32)).collect();
            StreamSpec { bursts, repeat: false, ends: rng.chance(1, 2), always_ready: false }
        }
        _ => StreamSpec { bursts: vec![(*rng.pick(&LATTICE), rng.range(1, 4) as u32), (*rng.pick(&LATTICE[1..]), rng.range(1, 3) as u32)], repeat: false, ends: true, always_ready: false },
    }
}

fn rand_actor(rng: &mut Rng, tag: u32, nclients: usize, allow_stream: bool) -> ActorDecl {
    let mut a = ActorDecl::plain(tag);
    a.entry = rand_entry(rng, allow_stream);
    a.mailbox = mailbox_kind(rng);
    if a.entry.stream() {
        a.stream = Some(rand_stream(rng));
        a.strategy = Strategy::NonRestartable;
    } else if a.entry.builder() {
        a.strategy = *rng.pick(&[Strategy::RestartOnly, Strategy::RestartOnly, Strategy::Recreate, Strategy::NonRestartable]);
    }
    // holders: random non-empty subset (or none when owning: only the OwningAddr exists)
    let mut holders: Vec<u16> = (0..nclients as u16).filter(|_| rng.chance(2, 3)).collect();
    if holders.is_empty() && !(a.entry.owning() && rng.chance(1, 2)) {
        holders.push(rng.below(nclients as u64) as u16);
    }
    a.holders = holders;
    a.owner = rng.below(nclients as u64) as u16;
    if rng.chance(1, 3) {
        let n = rng.range(1, 2);
        a.started = rand_sstep_timers(rng, n);
    }
    if rng.chance(1, 6) {
        a.started.push(SStep::Yield);
    }
    if rng.chance(1, 8) {
        a.stopped.push(if rng.chance(1, 2) { SStep::Yield } else { SStep::Sleep(*rng.pick(&LATTICE)) });
    }
    a.aux_work = if rng.chance(1, 4) { *rng.pick(&LATTICE[..3]) } else { 0 };
    a
}

/// profile "lifecycle": every termination cause x mailbox kind x strategy x plain/stream
pub fn lifecycle(rng: &mut Rng) -> Program {
    let mut g = G::new(rng);
    let nclients = g.rng.range(1, 3) as usize;
    let nact = g.rng.weighted(&[70, 30]) + 1;
    for t in 0..nact {
        let mut a = rand_actor(g.rng, 1 + t as u32, nclients, true);
        // a start-up that fails: nothing is handled, no stopped(), everybody who waits learns of the failure
        if !a.entry.stream() && g.rng.chance(1, 25) {
            a.started_err_at = vec![0];
        }
        // a one-shot job: it asks for its own stop from started() (or, rarely, from stopped(), where the request is moot)
        if g.rng.chance(1, 12) {
            a.started.push(SStep::CtxStop);
        } else if g.rng.chance(1, 30) {
            a.stopped.push(SStep::CtxStop);
        }
        g.prog.actors.push(a);
    }
    // recreate strategy of k=0 actors uses the default spec: one per program is enough (spec looked up by tag)
    g.layout(nclients);
    let mut w = W::zero();
    w.send = 22;
    w.call = 18;
    w.ping = 6;
    w.force_send = 3;
    w.stop = 9;
    w.halt = 5;
    w.consume = 3;
    w.consume_sync = 2;
    w.restart = 6;
    w.clone = 4;
    w.downgrade = 5;
    w.upgrade = 4;
    w.conv = 6;
    w.detach = 2;
    w.to_addr = 2;
    w.drop = 8;
    w.drop_all = 2;
    w.await_ = 5;
    w.join = 4;
    w.query = 2;
    w.yield_ = 6;
    w.sleep = 5;
    w.fork = 2;
    w.cancel_pct = 5;
    w.s_none = 40;
    w.s_yield = 14;
    w.s_sleep = 16;
    w.s_ctx_stop = 6;
    w.s_ctx_restart = 5;
    w.s_interval = 4;
    w.s_interval_with = 3;
    w.s_delayed_send = 3;
    w.s_delayed_exec = 2;
    w.s_weak_self = 2;
    g.gen_clients(&w, &Shape { clients: (1, 3), ops: (2, 8), final_wait_pct: 60 });
    g.prog
}

/// profile "handles": conversion / clone / drop programs with timers active
pub fn handles(rng: &mut Rng) -> Program {
    let mut g = G::new(rng);
    let nclients = g.rng.range(1, 3) as usize;
    let mut a = rand_actor(g.rng, 1, nclients, false);
    if g.rng.chance(1, 2) {
        let n = g.rng.range(1, 3);
        a.started = rand_sstep_timers(g.rng, n);
    }
    // a start-up that takes a while: handles are dropped and weak ones upgraded while started() is still suspended
    if g.rng.chance(1, 5) {
        a.started.insert(0, SStep::Sleep(*g.rng.pick(&[1u64, 2, 3, 5])));
    }
    g.prog.actors.push(a);
    g.layout(nclients);
    let mut w = W::zero();
    w.send = 10;
    w.call = 8;
    w.ping = 4;
    w.force_send = 3;
    w.clone = 10;
    w.downgrade = 12;
    w.upgrade = 14;
    w.conv = 16;
    w.detach = 4;
    w.to_addr = 4;
    w.send_park = 8;
    w.drop = 22;
    w.drop_all = 5;
    w.yield_ = 6;
    w.sleep = 6;
    w.fork = 6;
    w.query = 3;
    w.s_none = 50;
    w.s_yield = 10;
    w.s_sleep = 15;
    w.s_interval = 5;
    w.s_interval_with = 4;
    w.s_delayed_send = 4;
    w.s_delayed_exec = 3;
    w.s_weak_self = 6;
    g.gen_clients(&w, &Shape { clients: (1, 3), ops: (3, 10), final_wait_pct: 0 });
    // make sure everything is eventually dropped by some clients while others linger
    for c in 0..g.prog.clients.len() {
        if g.rng.chance(1, 2) {
            let d = g.dur();
            g.prog.clients[c].push(Op::Sleep(d));
            g.prog.clients[c].push(Op::DropAll);
            // probe weak handles after the drop
            g.prog.clients[c].push(Op::Yield);
        } else if g.rng.chance(1, 2) {
            // a parked `Sender::send` future outlives every handle of this client and is completed afterwards
            let base = g.slots_of(c, |k| matches!(k.hk, Hk::Addr | Hk::Owning));
            if let Some(b) = base.first().copied() {
                let a = g.sk[c][b as usize].a;
                g.sk[c].push(SK { hk: Hk::Sender, a });
                g.prog.clients[c].push(Op::ToSender { slot: b });
                let sender = (g.sk[c].len() - 1) as u16;
                let polls = g.rng.range(0, 2) as u8;
                let script = g.script(&w, true, false);
                g.sk[c].push(SK { hk: Hk::Fut, a });
                g.prog.clients[c].push(Op::SendPark { slot: sender, script, polls });
                let fut = (g.sk[c].len() - 1) as u16;
                let mut held = g.slots_of(c, |k| k.hk != Hk::None && k.hk != Hk::Fut);
                g.rng.shuffle(&mut held);
                for s in held {
                    g.sk[c][s as usize] = NONE;
                    g.prog.clients[c].push(Op::Drop { slot: s });
                }
                if g.rng.chance(1, 2) {
                    g.prog.clients[c].push(Op::Yield);
                }
                if g.rng.chance(3, 4) {
                    g.sk[c][fut as usize] = NONE;
                    g.prog.clients[c].push(Op::AwaitParked { slot: fut });
                }
            }
        }
    }
    g.prog
}

/// profile "backpressure": bounded n in 0..4 (some unbounded), 1-4 senders, slow handlers
pub fn backpressure(rng: &mut Rng) -> Program {
    let mut g = G::new(rng);
    let nclients = g.rng.range(1, 4) as usize;
    let mut a = ActorDecl::plain(1);
    a.mailbox = if g.rng.chance(1, 5) { None } else { Some(g.rng.below(5) as usize) };
    a.entry = Entry::Builder;
    a.holders = (0..nclients as u16).collect();
    if g.rng.chance(1, 3) {
        let d = g.dur_pos();
        a.started = vec![if g.rng.chance(1, 2) { SStep::IntervalWith(d) } else { SStep::Interval(d) }];
    }
    a.aux_work = if g.rng.chance(1, 3) { 1 } else { 0 };
    g.prog.actors.push(a);
    g.layout(nclients);
    let mut w = W::zero();
    w.send = 60;
    w.call = 8;
    w.ping = 4;
    w.force_send = 4;
    w.send_park = 5;
    w.drop = 3;
    w.conv = 10;
    w.downgrade = 3;
    w.upgrade = 3;
    w.stop = 2;
    w.yield_ = 4;
    w.sleep = 3;
    w.cancel_pct = 4;
    w.s_none = 25;
    w.s_yield = 15;
    w.s_sleep = 40;
    w.s_interval_with = 3;
    // one case in fifteen: the first message keeps the actor busy for a very long time (longer than any built-in
    // patience): senders that wait for room keep waiting
    if g.prog.actors[0].mailbox.is_some() && g.rng.chance(1, 15) {
        g.prog.clients[0].push(Op::Send { slot: 0, script: vec![PStep::Sleep(*g.rng.pick(&[6000u64, 11000]))], cancel: None });
    }
    // one case in five: the actor hands out `ctx.weak_sender()`, and a client floods it through that handle
    let export = g.rng.chance(1, 5);
    if export {
        g.prog.clients[0].push(Op::Call { slot: 0, script: vec![PStep::ExportWeakSender], cancel: None });
        g.prog.clients[0].push(Op::ImportWeakSender { slot: 0 });
        g.sk[0].push(SK { hk: Hk::WeakSender, a: 0 });
    }
    g.gen_clients(&w, &Shape { clients: (1, 4), ops: (3, 9), final_wait_pct: 0 });
    g.prog
}

/// profile "owning": owning entries with join / consume / detach at any position
pub fn owning(rng: &mut Rng) -> Program {
    let mut g = G::new(rng);
    let nclients = g.rng.range(1, 3) as usize;
    let mut a = rand_actor(g.rng, 1, nclients, true);
    a.entry = match (a.entry.stream(), g.rng.below(3)) {
        (true, 0) => Entry::OwningOnStream,
        (true, 1) => Entry::BuilderOnStreamOwning,
        (true, _) => Entry::BuilderWithStreamOwning,
        (false, 0) => Entry::SpawnOwning,
        (false, 1) => Entry::DefaultSpawnOwning,
        (false, _) => Entry::BuilderOwning,
    };
    // a stopped() hook that takes a while: joins and consumes issued meanwhile wait for it
    if g.rng.chance(1, 5) {
        a.stopped.push(SStep::Sleep(*g.rng.pick(&[1u64, 2, 3])));
    }
    g.prog.actors.push(a);
    g.layout(nclients);
    let mut w = W::zero();
    w.send = 18;
    w.call = 14;
    w.ping = 4;
    w.stop = 8;
    w.halt = 3;
    w.consume = 8;
    w.consume_sync = 6;
    w.restart = 3;
    w.conv = 6;
    w.detach = 8;
    w.to_addr = 8;
    w.drop = 6;
    w.join = 16;
    w.join_park = 6;
    w.await_ = 3;
    w.yield_ = 5;
    w.sleep = 4;
    w.fork = 3;
    w.cancel_pct = 8;
    w.s_none = 40;
    w.s_yield = 15;
    w.s_sleep = 20;
    w.s_ctx_stop = 8;
    w.s_ctx_restart = 3;
    w.s_interval = 3;
    // one case in five: a lazily awaited `consume()` - the future is created, other handles keep using the actor,
    // and only then (or never) the future is polled
    if g.rng.chance(1, 5) && !g.prog.actors[0].entry.stream() {
        let own = g.prog.actors.len() as u16; // owning slot of actor 0
        g.prog.clients[0].push(Op::ToAddr { slot: own });
        g.sk[0].push(SK { hk: Hk::Addr, a: 0 });
        let addr2 = (g.sk[0].len() - 1) as u16;
        g.prog.clients[0].push(Op::ConsumePark { slot: own });
        g.sk[0][own as usize] = NONE;
        g.sk[0].push(SK { hk: Hk::OwnFut, a: 0 });
        let fut = (g.sk[0].len() - 1) as u16;
        let k = g.rng.range(1, 3);
        for _ in 0..k {
            let script = g.script(&w, false, false);
            g.prog.clients[0].push(if g.rng.chance(1, 2) { Op::Call { slot: addr2, script, cancel: None } } else { Op::Send { slot: addr2, script, cancel: None } });
            if g.rng.chance(1, 3) {
                g.prog.clients[0].push(Op::Yield);
            }
        }
        g.prog.clients[0].push(Op::Call { slot: addr2, script: vec![], cancel: None });
        match g.rng.below(3) {
            0 => {
                // dropped un-polled: the actor lives on as long as the other handle does
                g.prog.clients[0].push(Op::Drop { slot: fut });
                g.sk[0][fut as usize] = NONE;
                g.prog.clients[0].push(Op::Call { slot: addr2, script: vec![], cancel: None });
            }
            _ => {
                g.prog.clients[0].push(Op::AwaitParked { slot: fut });
                g.sk[0][fut as usize] = NONE;
            }
        }
    }
    g.gen_clients(&w, &Shape { clients: (1, 3), ops: (2, 8), final_wait_pct: 70 });
    g.prog
}

/// family "timers": 0-4 timers of mixed kinds, idle and busy actors, termination at any virtual time by any cause
pub fn timers(rng: &mut Rng) -> Program {
    let mut g = G::new(rng);
    let nclients = g.rng.range(1, 2) as usize;
    let mut a = ActorDecl::plain(1);
    a.mailbox = mailbox_kind(g.rng);
    a.entry = *g.rng.pick(&[Entry::Builder, Entry::Builder, Entry::BuilderOwning, Entry::Spawn]);
    a.strategy = Strategy::RestartOnly;
    a.holders = (0..nclients as u16).collect();
    let nt = g.rng.range(0, 3);
    a.started = rand_sstep_timers(g.rng, nt);
    let idle = g.rng.chance(3, 5);
    if !idle && g.rng.chance(1, 3) {
        // slow tick handlers, but only with periods that keep the actor below saturation
        a.tick_work = 1;
        for s in a.started.iter_mut() {
            match s {
                SStep::Interval(d) | SStep::IntervalWith(d) if *d < 5 => *d = 5,
                _ => {}
            }
        }
    }
    g.prog.actors.push(a);
    g.layout(nclients);
    // client 0: registers further timers at chosen instants, then ends the actor somehow
    let n_more = g.rng.range(0, 2);
    for _ in 0..n_more {
        let d = g.dur();
        g.prog.clients[0].push(Op::Sleep(d));
        let p = if g.prog.actors[0].tick_work > 0 { 8 } else { g.dur_pos() };
        let step = match g.rng.below(4) {
            0 => PStep::Interval(p),
            1 => PStep::IntervalWith(p),
            2 => PStep::DelayedSend(g.dur()),
            _ => PStep::DelayedExec(g.dur()),
        };
        let op = if g.rng.chance(1, 2) { Op::Send { slot: 0, script: vec![step], cancel: None } } else { Op::Call { slot: 0, script: vec![step], cancel: None } };
        g.prog.clients[0].push(op);
    }
    if !idle {
        let k = g.rng.range(1, 3);
        for _ in 0..k {
            let d = g.dur();
            let w = g.dur();
            g.prog.clients[0].push(Op::Sleep(d));
            g.prog.clients[0].push(Op::Send { slot: 0, script: vec![PStep::Sleep(w)], cancel: None });
        }
    }
    let life = g.rng.range(0, 24);
    g.prog.clients[0].push(Op::Sleep(life));
    match g.rng.below(6) {
        0 => g.prog.clients[0].push(Op::Stop { slot: 0 }),
        1 => g.prog.clients[0].push(Op::DropAll),
        2 => g.prog.clients[0].push(Op::Send { slot: 0, script: vec![PStep::CtxStop], cancel: None }),
        3 => g.prog.clients[0].push(Op::Halt { slot: 0 }),
        4 => {
            // a panic inside a handler kills the actor while its timers are live
            g.prog.clients[0].push(Op::Send { slot: 0, script: vec![PStep::Panic], cancel: None });
        }
        _ => {} // nobody stops it: last drop at client end
    }
    if nclients > 1 {
        let d = g.rng.range(0, 30);
        g.prog.clients[1].push(Op::Sleep(d));
        if g.rng.chance(1, 2) {
            g.prog.clients[1].push(Op::Downgrade { slot: 0 });
            g.prog.clients[1].push(Op::Drop { slot: 0 });
            g.prog.clients[1].push(Op::Sleep(g.rng.range(0, 10)));
            g.prog.clients[1].push(Op::Upgrade { slot: 2 });
        }
    }
    g.prog
}

/// family "timeout": timeout t vs per-message work d over the lattice incl. d = t +- 1, successors queued
pub fn timeout(rng: &mut Rng) -> Program {
    let mut g = G::new(rng);
    let nclients = g.rng.range(1, 3) as usize;
    let mut a = ActorDecl::plain(1);
    a.mailbox = mailbox_kind(g.rng);
    a.entry = if g.rng.chance(1, 2) { Entry::BuilderOwning } else { Entry::Builder };
    a.holders = (0..nclients as u16).collect();
    a.owner = 0;
    let no_timeout = g.rng.chance(1, 6);
    let t = *g.rng.pick(&[1u64, 2, 3, 5, 8]);
    if !no_timeout {
        a.timeout = Some(t);
        a.fail_on_timeout = g.rng.chance(1, 3);
    } else {
        // `fail_on_timeout` without a configured limit is inert: nothing is ever abandoned, however long it takes
        a.fail_on_timeout = g.rng.chance(1, 2);
    }
    a.cfg_order = g.rng.below(4) as u8;
    // timers on an actor with a handler timeout: an abandoned tick handler must not disturb later ticks
    if g.rng.chance(1, 4) {
        let p = *g.rng.pick(&[5u64, 8, 13]);
        a.started.push(if g.rng.chance(2, 3) { SStep::Interval(p) } else { SStep::IntervalWith(p) });
        if !no_timeout && !a.fail_on_timeout && g.rng.chance(1, 2) {
            a.tick_work = t + 1; // every tick handler is abandoned; p > t + 1 keeps the actor below saturation
            if p <= t + 1 {
                a.tick_work = 0;
            }
        }
    }
    // lifecycle callbacks are not subject to the handler timeout, however long they take
    if g.rng.chance(1, 4) {
        a.stopped = vec![SStep::Sleep(*g.rng.pick(&[1u64, 3, 9]))];
    }
    if g.rng.chance(1, 6) {
        a.started.insert(0, SStep::Sleep(*g.rng.pick(&[1u64, 3, 9])));
    }
    a.strategy = *g.rng.pick(&[Strategy::RestartOnly, Strategy::Recreate, Strategy::NonRestartable]);
    g.prog.actors.push(a);
    g.layout(nclients);
    for c in 0..nclients {
        let k = g.rng.range(1, 6);
        for _ in 0..k {
            let d = if no_timeout {
                *g.rng.pick(&[0u64, 1, 8, 50, 200, 1000, 6000, 20000])
            } else {
                match g.rng.below(8) {
                    0 => t.saturating_sub(1),
                    1 => t + 1,
                    2 => t,
                    3 => 0,
                    4 => t + 5,
                    _ => g.dur(),
                }
            };
            let script = if g.rng.chance(1, 5) && d >= 2 {
                vec![PStep::Sleep(d / 2), PStep::Yield, PStep::Sleep(d - d / 2)]
            } else if g.rng.chance(1, 25) {
                // asks for its own stop, then outlives (or not) the limit: the request stands either way
                vec![PStep::CtxStop, PStep::Sleep(d)]
            } else if g.prog.actors[0].tick_work == 0 && g.rng.chance(1, 20) {
                // arms a timer, then outlives (or not) the limit: the timer stands either way (not on actors whose tick
                // handlers are slow: more timers would saturate them)
                let p = *g.rng.pick(&[5u64, 8, 13]);
                vec![g.rng.pick(&[PStep::Interval(p), PStep::IntervalWith(p), PStep::DelayedSend(p), PStep::DelayedExec(p)]).clone(), PStep::Sleep(d)]
            } else {
                vec![PStep::Sleep(d)]
            };
            let via_call = g.rng.chance(1, 2);
            // sometimes through a Sender / Caller
            if g.rng.chance(1, 6) {
                g.prog.clients[c].push(if via_call { Op::ToCaller { slot: 0 } } else { Op::ToSender { slot: 0 } });
                let slot = g.sk[c].len() as u16;
                g.sk[c].push(SK { hk: if via_call { Hk::Caller } else { Hk::Sender }, a: 0 });
                g.prog.clients[c].push(if via_call { Op::Call { slot, script, cancel: None } } else { Op::Send { slot, script, cancel: None } });
            } else {
                g.prog.clients[c].push(if via_call { Op::Call { slot: 0, script, cancel: None } } else { Op::Send { slot: 0, script, cancel: None } });
            }
            if g.rng.chance(1, 5) {
                g.prog.clients[c].push(Op::Yield);
            }
            // idle gaps, some longer than the timeout: the limit applies to an invocation, not to the time between two
            if g.rng.chance(1, 5) {
                let gap = *g.rng.pick(&[1u64, t + 1, 2 * t + 3, 13]);
                g.prog.clients[c].push(Op::Sleep(gap));
            }
        }
        if g.rng.chance(1, 3) {
            g.prog.clients[c].push(Op::Call { slot: 0, script: vec![], cancel: None });
        }
    }
    if g.rng.chance(1, 2) {
        let slot = (1 + 0) as u16; // owning slot index = nact + 0
        if g.prog.actors[0].entry.owning() {
            g.prog.clients[0].push(Op::Stop { slot: 0 });
            g.prog.clients[0].push(Op::Join { slot, cancel: None });
        } else {
            g.prog.clients[0].push(Op::Await { slot: 0, by_ref: g.rng.chance(1, 2) });
        }
    }
    g.prog
}

/// family "restart": restarts through Addr::restart and Context::restart at any position, timers in started and handlers
pub fn restart(rng: &mut Rng) -> Program {
    let mut g = G::new(rng);
    // one variant in six creates the actor through the builder's `register()` terminal (a service type)
    let via_register = g.rng.chance(1, 6);
    let nclients = if via_register { 1 } else { g.rng.range(1, 3) as usize };
    let mut a = ActorDecl::plain(1);
    a.mailbox = mailbox_kind(g.rng);
    a.entry = *g.rng.pick(&[Entry::Builder, Entry::Builder, Entry::BuilderOwning, Entry::Spawn, Entry::SpawnOwning]);
    if via_register {
        a.k = 1;
        a.at_setup = false;
        a.entry = Entry::Builder;
    }
    a.strategy = *g.rng.pick(&[Strategy::RestartOnly, Strategy::Recreate, Strategy::NonRestartable]);
    a.holders = (0..nclients as u16).collect();
    if g.rng.chance(1, 2) {
        let n = g.rng.range(1, 2);
        a.started = rand_sstep_timers(g.rng, n);
    }
    if g.rng.chance(1, 8) {
        a.started_err_at = vec![g.rng.range(1, 2) as u32];
    }
    if g.rng.chance(1, 6) {
        a.stopped.push(SStep::Sleep(1));
    }
    if g.rng.chance(1, 4) {
        // a started() that takes a while: old timers must stay silent meanwhile
        let d = *g.rng.pick(&[2u64, 3, 5, 8]);
        a.started.push(SStep::Sleep(d));
    }
    // one case in eight: started() asks for a restart itself in its first one or two incarnations (an actor that
    // retries its initialisation): every accepted request is followed by a restart
    if !via_register && a.strategy != Strategy::NonRestartable && a.started_err_at.is_empty() && g.rng.chance(1, 8) {
        a.started.push(SStep::CtxRestartUntil(g.rng.range(1, 2) as u32));
    }
    // one case in six: the actor subscribes to a broker topic in started(), i.e. once per incarnation: whatever the
    // restart strategy does to the actor value, it stays the same subscriber (publications arrive exactly once)
    let subscribes = !via_register && g.rng.chance(1, 6);
    if subscribes {
        a.started.push(SStep::Subscribe(0));
        g.prog.topics = vec![0];
    }
    g.prog.actors.push(a);
    g.layout(nclients);
    if via_register {
        g.prog.clients[0].push(Op::SpawnRegister { decl: 0 });
        g.sk[0].push(SK { hk: Hk::Addr, a: 0 });
        g.sk[0].push(SK { hk: Hk::None, a: usize::MAX });
    }
    let mut w = W::zero();
    w.send = 26;
    w.call = 26;
    w.ping = 4;
    w.restart = 16;
    w.conv = 8;
    w.downgrade = 3;
    w.upgrade = 3;
    w.stop = 2;
    w.yield_ = 5;
    w.sleep = 8;
    w.fork = 2;
    w.s_none = 40;
    w.s_yield = 10;
    w.s_sleep = 16;
    w.s_ctx_restart = 10;
    w.s_interval = 5;
    w.s_interval_with = 4;
    w.s_delayed_send = 4;
    w.s_delayed_exec = 3;
    g.gen_clients(&w, &Shape { clients: (1, 3), ops: (3, 9), final_wait_pct: 20 });
    // let time pass after the last restart so that stale timers get their chance to fire
    let d = g.rng.range(0, 12);
    g.prog.clients[0].push(Op::Sleep(d));
    g.prog.clients[0].push(Op::Call { slot: if via_register { 2 } else { 0 }, script: vec![], cancel: None });
    if subscribes {
        for _ in 0..g.rng.range(1, 2) {
            g.prog.clients[0].push(Op::Publish { topic: 0, via: Via::Static });
            g.prog.clients[0].push(Op::BrokerPing { topic: 0 });
        }
        g.prog.clients[0].push(Op::Sleep(1));
    }
    g.prog
}

/// family "stream": stream-attached actors over all stream entry points and stream shapes
pub fn stream(rng: &mut Rng) -> Program {
    use crate::actors::StreamSpec;
    let mut g = G::new(rng);
    let nclients = g.rng.range(1, 3) as usize;
    let mut a = ActorDecl::plain(1);
    a.entry = *g.rng.pick(&[Entry::OnStream, Entry::OwningOnStream, Entry::BuilderOnStream, Entry::BuilderOnStreamOwning, Entry::BuilderWithStream, Entry::BuilderWithStreamOwning]);
    a.strategy = Strategy::NonRestartable;
    a.mailbox = mailbox_kind(g.rng);
    a.holders = (0..nclients as u16).collect();
    a.owner = 0;
    let always = g.rng.chance(1, 8);
    if always {
        a.stream = Some(StreamSpec { bursts: vec![], repeat: false, ends: false, always_ready: true });
        a.aux_yield = true;
    } else {
        a.stream = Some(rand_stream(g.rng));
        a.aux_work = if g.rng.chance(1, 3) { *g.rng.pick(&LATTICE[..4]) } else { 0 };
        a.aux_yield = g.rng.chance(1, 4);
        // one case in twelve: one long run of ready items (more than any small counter holds), instantaneous handlers
        if g.rng.chance(1, 12) {
            a.stream = Some(StreamSpec { bursts: vec![(0, g.rng.range(257, 700) as u32)], repeat: false, ends: true, always_ready: false });
            a.aux_work = 0;
        }
    }
    if g.rng.chance(1, 5) {
        a.started = vec![SStep::Yield];
    }
    // the actor stops itself: from a stream item's handler (the n-th item decides that the job is done), or already in
    // `started()`; no mailbox message need ever arrive afterwards - the stop takes effect all the same (and at once on
    // an actor that would otherwise sit on a silent stream)
    let mut self_stop = false;
    if g.rng.chance(1, 6) {
        a.item_stop_at = Some(g.rng.range(1, 4) as u32);
        self_stop = true;
    } else if g.rng.chance(1, 12) {
        a.started.push(SStep::CtxStop);
        self_stop = true;
    }
    // a builder-configured handler timeout is not applied to stream-attached actors
    if !always && a.entry.builder() && g.rng.chance(1, 3) {
        a.timeout = Some(*g.rng.pick(&[1u64, 2, 5]));
        a.fail_on_timeout = g.rng.chance(1, 3);
    }
    g.prog.actors.push(a);
    g.layout(nclients);
    let mut w = W::zero();
    w.send = 30;
    w.call = 24;
    w.ping = 6;
    w.conv = 8;
    w.stop = 8;
    w.halt = 4;
    w.consume = 3;
    w.drop = 8;
    w.drop_all = 3;
    w.await_ = 4;
    w.join = 3;
    w.yield_ = 10;
    w.sleep = 10;
    w.downgrade = 3;
    w.upgrade = 3;
    w.s_none = 40;
    w.s_yield = 20;
    w.s_sleep = 20;
    w.s_ctx_stop = 4;
    if always {
        // an always-ready stream keeps the executor busy: the virtual clock never advances, so nothing
        // in these programs sleeps, and client 0 stops the actor explicitly
        w.sleep = 0;
        w.s_sleep = 0;
        w.await_ = 0;
        w.join = 0;
        w.halt = 0;
        w.consume = 0;
        g.gen_clients(&w, &Shape { clients: (1, 3), ops: (1, 5), final_wait_pct: 0 });
        for _ in 0..g.rng.range(0, 6) {
            g.prog.clients[0].push(Op::Yield);
        }
        if self_stop && g.rng.chance(1, 2) {
            // nobody else stops it: the actor's own request has to get through the always-ready stream
            for c in g.prog.clients.iter_mut() {
                c.retain(|op| !matches!(op, Op::Stop { .. }));
            }
        } else {
            g.prog.clients[0].push(Op::Call { slot: 0, script: vec![], cancel: None });
            g.prog.clients[0].push(Op::Stop { slot: 0 });
        }
        g.prog.clients[0].push(Op::Await { slot: 0, by_ref: true });
    } else {
        g.gen_clients(&w, &Shape { clients: (1, 3), ops: (2, 8), final_wait_pct: 50 });
    }
    g.prog
}

fn svc_default(k: u8, rng: &mut Rng) -> ActorDecl {
    let mut d = ActorDecl::plain(9000 + k as u32);
    d.k = k;
    d.entry = Entry::Spawn;
    if rng.chance(1, 5) {
        d.started = vec![SStep::Yield];
    } else if rng.chance(1, 5) {
        d.started = vec![SStep::Sleep(*rng.pick(&[1u64, 2]))];
    }
    // a service that takes its time in stopped(): until that hook has returned it is still the running, registered
    // instance for every registry operation
    if rng.chance(1, 4) {
        d.stopped = vec![SStep::Sleep(*rng.pick(&[1u64, 2, 3]))];
    }
    d
}

/// family "liveness": termination cause x await history, then stopped()/running() queries and registry reactions
pub fn liveness(rng: &mut Rng) -> Program {
    let mut g = G::new(rng);
    let service = g.rng.chance(2, 5);
    if service {
        // service of type k, spawned on demand, terminated without anybody awaiting it, then looked up again
        let k = g.rng.range(1, 2) as u8;
        let d1 = svc_default(1, g.rng);
        let d2 = svc_default(2, g.rng);
        g.prog.defaults = vec![d1, d2];
        // a fresh instance that a client may register later
        let mut fresh = ActorDecl::plain(50);
        fresh.k = k;
        fresh.entry = Entry::Spawn;
        fresh.at_setup = false;
        g.prog.actors.push(fresh);
        g.layout(1);
        let base = g.sk[0].len() as u16; // 2 slots (addr, owning) of decl 0, both empty
        let c = &mut g.prog.clients[0];
        c.push(Op::FromRegistry { k }); // slot base
        c.push(Op::Call { slot: base, script: vec![], cancel: None });
        let mut extra = 0u16;
        if g.rng.chance(1, 2) {
            // while the instance is alive try_from_registry hands it out
            c.push(Op::TryFromRegistry { k }); // slot base+1
            c.push(Op::Call { slot: base + 1, script: vec![], cancel: None });
            c.push(Op::Drop { slot: base + 1 });
            extra = 1;
        }
        let cause = g.rng.below(4);
        match cause {
            0 => c.push(Op::Stop { slot: base }),
            1 => c.push(Op::Send { slot: base, script: vec![PStep::CtxStop], cancel: None }),
            2 => c.push(Op::Send { slot: base, script: vec![PStep::Panic], cancel: None }),
            _ => c.push(Op::Call { slot: base, script: vec![PStep::Panic], cancel: None }),
        }
        let hist = g.rng.below(4);
        if hist == 1 {
            c.push(Op::Clone { slot: base }); // base+1+extra
            c.push(Op::Await { slot: base + 1 + extra, by_ref: false });
        }
        c.push(Op::Sleep(1));
        let mut next = base + extra + if hist == 1 { 2 } else { 1 };
        if g.rng.chance(1, 2) {
            c.push(Op::Query { slot: base, running: g.rng.chance(1, 2) });
        }
        match g.rng.below(5) {
            0 | 1 => {
                c.push(Op::FromRegistry { k });
                c.push(Op::Call { slot: next, script: vec![], cancel: None });
                next += 1;
            }
            4 => {
                // `setup()` is the other on-demand entry point: after it a live instance is registered
                c.push(Op::Setup { k });
                c.push(Op::TryFromRegistry { k });
                c.push(Op::Call { slot: next, script: vec![], cancel: None });
                next += 1;
            }
            2 => {
                c.push(Op::TryFromRegistry { k });
                c.push(Op::Call { slot: next, script: vec![], cancel: None });
                next += 1;
            }
            _ => {
                c.push(Op::SpawnActor { decl: 0 }); // slot next
                c.push(Op::Register { slot: next }); // pushes one more slot (prev)
                c.push(Op::Call { slot: next, script: vec![], cancel: None });
                next += 2;
            }
        }
        let _ = next;
        c.push(Op::AlreadyRunning { k });
        return g.prog;
    }
    let nclients = 2usize;
    let mut a = ActorDecl::plain(1);
    a.mailbox = mailbox_kind(g.rng);
    a.entry = *g.rng.pick(&[Entry::Builder, Entry::Spawn, Entry::BuilderOwning]);
    a.holders = vec![0, 1];
    a.owner = 0;
    let cause = g.rng.below(7);
    if cause == 4 {
        a.started_err_at = vec![0];
    }
    if cause == 5 {
        a.timeout = Some(2);
        a.fail_on_timeout = true;
        a.entry = Entry::Builder;
    }
    g.prog.actors.push(a);
    g.layout(nclients);
    if cause == 6 {
        g.prog.cancel = Some((0, g.rng.range(1, 3) as u32));
    }
    // client 1: the await history
    let hist = g.rng.below(4); // 0 never, 1 clone awaited before, 2 clone awaited after, 3 self (&mut) awaited
    // client 0: queries before, the cause, a pause, queries after on Addr / clone / WeakAddr
    let nslots = g.sk[0].len() as u16; // 2
    let c0 = &mut g.prog.clients[0];
    c0.push(Op::Clone { slot: 0 }); // nslots
    c0.push(Op::Downgrade { slot: 0 }); // nslots+1
    if cause != 4 {
        c0.push(Op::Query { slot: 0, running: false });
        c0.push(Op::Query { slot: nslots + 1, running: false });
        c0.push(Op::Call { slot: 0, script: vec![], cancel: None });
        c0.push(Op::Query { slot: nslots, running: true });
    }
    match cause {
        0 => c0.push(Op::Stop { slot: 0 }),
        1 => c0.push(Op::Send { slot: 0, script: vec![PStep::CtxStop], cancel: None }),
        2 => c0.push(Op::Send { slot: 0, script: vec![PStep::Panic], cancel: None }),
        3 => c0.push(Op::Stop { slot: nslots + 1 }),
        5 => c0.push(Op::Send { slot: 0, script: vec![PStep::Sleep(5)], cancel: None }),
        _ => {}
    }
    if hist == 3 {
        c0.push(Op::Await { slot: 0, by_ref: true });
    } else {
        c0.push(Op::Sleep(g.rng.range(1, 8)));
    }
    for _ in 0..g.rng.range(1, 3) {
        let slot = *g.rng.pick(&[0, nslots, nslots + 1]);
        let running = slot != nslots + 1 && g.rng.chance(1, 2);
        c0.push(Op::Query { slot, running });
    }
    if g.rng.chance(1, 3) {
        // a clone made after termination is queried too
        c0.push(Op::Clone { slot: nslots });
        c0.push(Op::Query { slot: nslots + 2, running: false });
    }
    let c1 = &mut g.prog.clients[1];
    match hist {
        1 => c1.push(Op::Await { slot: 0, by_ref: false }),
        2 => {
            c1.push(Op::Sleep(9));
            c1.push(Op::Await { slot: 0, by_ref: false });
        }
        _ => {
            c1.push(Op::Sleep(12));
            c1.push(Op::Query { slot: 0, running: true });
        }
    }
    g.prog
}

/// family "kinds": leave every non-empty subset of strong kinds alive, then self-stop / self-restart / timers / upgrades
pub fn kinds(rng: &mut Rng) -> Program {
    let mut g = G::new(rng);
    let two = g.rng.chance(1, 3);
    for t in 0..if two { 2 } else { 1 } {
        let mut a = ActorDecl::plain(1 + t);
        a.mailbox = mailbox_kind(g.rng);
        a.entry = if g.rng.chance(1, 2) { Entry::BuilderOwning } else { Entry::Builder };
        a.strategy = *g.rng.pick(&[Strategy::RestartOnly, Strategy::RestartOnly, Strategy::Recreate]);
        a.holders = vec![0];
        a.owner = 0;
        if g.rng.chance(2, 3) {
            let p = g.dur_pos();
            a.started = vec![g.rng.pick(&[SStep::Interval(p), SStep::IntervalWith(p), SStep::DelayedSend(p + 3)]).clone()];
        }
        g.prog.actors.push(a);
    }
    g.layout(1);
    let nact = g.prog.actors.len();
    for ai in 0..nact {
        let addr = ai as u16;
        let own = (nact + ai) as u16;
        let owning = g.prog.actors[ai].entry.owning();
        // make one handle of every kind; remember the slots
        let base = g.sk[0].len() as u16;
        let c = &mut g.prog.clients[0];
        c.push(Op::ToSender { slot: addr }); // base
        c.push(Op::ToCaller { slot: addr }); // base+1
        c.push(Op::Downgrade { slot: addr }); // base+2 WeakAddr
        c.push(Op::ToWeakSender { slot: addr }); // base+3
        c.push(Op::ToWeakCaller { slot: addr }); // base+4
        c.push(Op::Downgrade { slot: base }); // base+5 WeakSender from Sender
        c.push(Op::Downgrade { slot: base + 1 }); // base+6 WeakCaller from Caller
        for k in [Hk::Sender, Hk::Caller, Hk::Weak, Hk::WeakSender, Hk::WeakCaller, Hk::WeakSender, Hk::WeakCaller] {
            g.sk[0].push(SK { hk: k, a: ai });
        }
        // choose the non-empty subset of strong kinds to keep: bit0 Addr, bit1 Owning, bit2 Sender, bit3 Caller
        let mut mask = g.rng.range(1, 15);
        if !owning {
            mask &= !2;
            if mask == 0 {
                mask = g.rng.range(1, 7) << 0 & 0b1101;
                if mask == 0 {
                    mask = 8;
                }
            }
        }
        let c = &mut g.prog.clients[0];
        c.push(Op::Sleep(g.rng.range(0, 3)));
        if mask & 1 == 0 {
            c.push(Op::Drop { slot: addr });
        }
        if mask & 2 == 0 && owning {
            // detach yields an Addr: drop that too
            if g.rng.chance(1, 2) {
                c.push(Op::Drop { slot: own });
            } else {
                c.push(Op::Detach { slot: own });
                let s = g.sk[0].len() as u16;
                g.sk[0].push(SK { hk: Hk::Addr, a: ai });
                c.push(Op::Drop { slot: s });
            }
        }
        if mask & 4 == 0 {
            c.push(Op::Drop { slot: base });
        }
        if mask & 8 == 0 {
            c.push(Op::Drop { slot: base + 1 });
        }
        // let timers run for a while with the reduced set
        c.push(Op::Sleep(g.rng.range(0, 12)));
        // probes: upgrade every weak handle
        for wslot in [base + 2, base + 3, base + 4, base + 5, base + 6] {
            if g.rng.chance(2, 3) {
                c.push(Op::Upgrade { slot: wslot });
                g.sk[0].push(SK { hk: Hk::None, a: ai });
                let s = (g.sk[0].len() - 1) as u16;
                c.push(Op::Drop { slot: s });
            }
        }
        // act through a surviving handle: plain message, self-restart, timers, finally self-stop
        let via: Vec<(u16, bool)> = [(addr, mask & 1 != 0, true), (own, mask & 2 != 0 && owning, true), (base, mask & 4 != 0, false), (base + 1, mask & 8 != 0, true)]
            .iter()
            .filter(|x| x.1)
            .map(|x| (x.0, x.2))
            .collect();
        let pickv = |g: &mut G, call_ok: bool| -> (u16, bool) {
            let _ = call_ok;
            let v: Vec<&(u16, bool)> = via.iter().collect();
            **g.rng.pick(&v)
        };
        let steps: Vec<PStep> = {
            let mut v = vec![PStep::Yield];
            if g.rng.chance(1, 2) {
                v.push(PStep::CtxRestart);
            }
            if g.rng.chance(1, 2) {
                let p = g.dur_pos();
                v.push(PStep::Interval(p));
            }
            v
        };
        for st in steps {
            let (slot, is_call) = pickv(&mut g, false);
            let hk = g.sk[0][slot as usize].hk;
            let op = if hk == Hk::Caller || (is_call && hk != Hk::Sender && g.rng.chance(1, 2)) { Op::Call { slot, script: vec![st], cancel: None } } else { Op::Send { slot, script: vec![st], cancel: None } };
            g.prog.clients[0].push(op);
            g.prog.clients[0].push(Op::Sleep(g.rng.range(0, 4)));
        }
        if g.rng.chance(2, 3) {
            let (slot, _) = pickv(&mut g, false);
            let hk = g.sk[0][slot as usize].hk;
            let op = if hk == Hk::Caller { Op::Call { slot, script: vec![PStep::CtxStop], cancel: None } } else { Op::Send { slot, script: vec![PStep::CtxStop], cancel: None } };
            g.prog.clients[0].push(op);
        }
    }
    g.prog.clients[0].push(Op::Sleep(2));
    g.prog
}

/// family "tree": actor trees up to depth 3 / 6 nodes, children under different message types, some held outside,
/// parent termination by every cause at any time (faults are added by the "+faults" expansion)
pub fn tree(rng: &mut Rng) -> Program {
    let mut g = G::new(rng);
    let n = g.rng.range(2, 6) as usize;
    let nclients = g.rng.range(1, 2) as usize;
    // parent[i] for i>0: a node with smaller index and depth < 2
    let mut parent = vec![usize::MAX; n];
    let mut depth = vec![0usize; n];
    for i in 1..n {
        let cands: Vec<usize> = (0..i).filter(|p| depth[*p] < 2).collect();
        let p = if g.rng.chance(1, 2) { 0 } else { *g.rng.pick(&cands) };
        parent[i] = p;
        depth[i] = depth[p] + 1;
    }
    for i in 0..n {
        let mut a = ActorDecl::plain(1 + i as u32);
        a.mailbox = mailbox_kind(g.rng);
        a.entry = *g.rng.pick(&[Entry::Builder, Entry::Spawn, Entry::Builder]);
        a.holders = vec![0];
        if nclients > 1 && g.rng.chance(1, 3) {
            a.holders.push(1);
        }
        if g.rng.chance(1, 5) {
            let d = g.dur_pos();
            a.started = vec![SStep::Interval(d)];
        }
        a.aux_work = if g.rng.chance(1, 5) { 1 } else { 0 };
        // parents that get restarted keep their children, whatever the restart strategy does to the actor value
        if a.entry == Entry::Builder {
            a.strategy = *g.rng.pick(&[Strategy::RestartOnly, Strategy::RestartOnly, Strategy::Recreate]);
        }
        // some leaves are attached to a stream that is still open (it never yields and never ends): they too are
        // released when their parent goes away, and stop although their stream has not ended
        if i > 0 && !(0..n).any(|c| parent[c] == i) && g.rng.chance(1, 5) {
            a.entry = *g.rng.pick(&[Entry::OnStream, Entry::BuilderOnStream]);
            a.strategy = Strategy::NonRestartable;
            a.stream = Some(crate::actors::StreamSpec { bursts: vec![], repeat: false, ends: false, always_ready: false });
            a.started = vec![];
        }
        g.prog.actors.push(a);
    }
    g.layout(nclients);
    // client 0 builds the tree top-down
    let mut reg_ty = vec![2u8; n];
    for i in 1..n {
        let p = parent[i] as u16;
        let ty = if i > 1 && g.rng.chance(1, 2) { reg_ty[i - 1] } else { g.rng.below(3) as u8 };
        reg_ty[i] = ty;
        let step = if ty == 2 { PStep::AddChild(i as u16) } else { PStep::RegisterChild(ty, i as u16) };
        let op = if g.rng.chance(1, 2) { Op::Send { slot: p, script: vec![step], cancel: None } } else { Op::Call { slot: p, script: vec![step], cancel: None } };
        g.prog.clients[0].push(op);
        // sometimes a parent broadcasts while its child list is still growing: children registered after a broadcast
        // are entitled to every later one (seeded defect C16r11: a recipient list cached at the first broadcast)
        if g.rng.chance(1, 4) {
            let bty = if g.rng.chance(2, 3) { ty } else { g.rng.below(3) as u8 };
            g.prog.clients[0].push(Op::Send { slot: p, script: vec![PStep::SendToChildren(bty)], cancel: None });
        }
    }
    // sometimes a child is registered a second time with the same parent: under another type (it is then entitled to
    // both kinds of broadcast) or under the same type (it then gets each broadcast twice)
    if n > 1 && g.rng.chance(1, 3) {
        let i = g.rng.range(1, n as u64 - 1) as usize;
        let p = parent[i] as u16;
        let ty = if g.rng.chance(2, 3) { (reg_ty[i] + 1 + g.rng.below(2) as u8) % 3 } else { reg_ty[i] };
        let step = if ty == 2 { PStep::AddChild(i as u16) } else { PStep::RegisterChild(ty, i as u16) };
        g.prog.clients[0].push(Op::Send { slot: p, script: vec![step], cancel: None });
    }
    // barrier: make sure the registrations were handled before handles are dropped
    for i in 0..n {
        if (0..n).any(|c| parent[c] == i) {
            g.prog.clients[0].push(Op::Ping { slot: i as u16, cancel: None });
        }
    }
    // drop outside handles of some children
    for i in 1..n {
        if g.rng.chance(2, 3) {
            g.prog.clients[0].push(Op::Drop { slot: i as u16 });
            g.sk[0][i] = SK { hk: Hk::None, a: usize::MAX };
        }
    }
    // sometimes one or two children that are still held outside are halted individually (the parent keeps its
    // stale entries); broadcasts after that must still reach every live sibling, and nobody else may die
    if g.rng.chance(1, 2) {
        let kids: Vec<u16> = (1..n).filter(|i| g.sk[0][*i].hk == Hk::Addr).map(|i| i as u16).collect();
        let m = g.rng.range(1, 2) as usize;
        for s in kids.into_iter().take(m) {
            g.prog.clients[0].push(Op::Halt { slot: s });
            g.sk[0][s as usize] = SK { hk: Hk::None, a: usize::MAX };
        }
    }
    // traffic: broadcasts, messages to children still held, sleeps
    let k = g.rng.range(1, 5);
    for _ in 0..k {
        match g.rng.below(6) {
            5 => {
                // restart a parent (from outside or from its own context), then make sure it is through
                let parents: Vec<usize> = (0..n).filter(|i| (0..n).any(|c| parent[c] == *i) && g.sk[0][*i].hk == Hk::Addr).collect();
                if !parents.is_empty() {
                    let p = *g.rng.pick(&parents) as u16;
                    if g.rng.chance(1, 2) {
                        g.prog.clients[0].push(Op::Restart { slot: p });
                    } else {
                        g.prog.clients[0].push(Op::Send { slot: p, script: vec![PStep::CtxRestart], cancel: None });
                    }
                    g.prog.clients[0].push(Op::Ping { slot: p, cancel: None });
                }
            }
            0 | 1 => {
                let parents: Vec<usize> = (0..n).filter(|i| (0..n).any(|c| parent[c] == *i) && g.sk[0][*i].hk == Hk::Addr).collect();
                if !parents.is_empty() {
                    let p = *g.rng.pick(&parents);
                    let ty = g.rng.below(3) as u8;
                    g.prog.clients[0].push(Op::Send { slot: p as u16, script: vec![PStep::SendToChildren(ty)], cancel: None });
                }
            }
            2 => {
                let held = g.slots_of(0, |k| k.hk == Hk::Addr);
                if !held.is_empty() {
                    let s = *g.rng.pick(&held);
                    let d = g.dur();
                    g.prog.clients[0].push(Op::Send { slot: s, script: vec![PStep::Sleep(d)], cancel: None });
                }
            }
            3 => {
                let d = g.dur();
                g.prog.clients[0].push(Op::Sleep(d));
            }
            _ => {
                let held = g.slots_of(0, |k| k.hk == Hk::Addr);
                if !held.is_empty() {
                    let s = *g.rng.pick(&held);
                    g.prog.clients[0].push(Op::Ping { slot: s, cancel: None });
                }
            }
        }
    }
    // terminate the root (or another parent) somehow
    let parents: Vec<usize> = (0..n).filter(|i| (0..n).any(|c| parent[c] == *i) && g.sk[0][*i].hk == Hk::Addr).collect();
    if !parents.is_empty() {
        let p = *g.rng.pick(&parents) as u16;
        match g.rng.below(6) {
            0 => g.prog.clients[0].push(Op::Stop { slot: p }),
            1 => g.prog.clients[0].push(Op::Send { slot: p, script: vec![PStep::CtxStop], cancel: None }),
            2 => g.prog.clients[0].push(Op::Send { slot: p, script: vec![PStep::Panic], cancel: None }),
            3 => g.prog.clients[0].push(Op::Halt { slot: p }),
            4 => g.prog.clients[0].push(Op::Drop { slot: p }),
            _ => {}
        }
    }
    let d = g.rng.range(0, 6);
    g.prog.clients[0].push(Op::Sleep(d));
    if nclients > 1 {
        let d = g.rng.range(0, 10);
        g.prog.clients[1].push(Op::Sleep(d));
        let held = g.slots_of(1, |k| k.hk == Hk::Addr);
        if !held.is_empty() {
            let s = *g.rng.pick(&held);
            g.prog.clients[1].push(Op::Call { slot: s, script: vec![], cancel: None });
            g.prog.clients[1].push(Op::Sleep(3));
        }
    }
    g.prog
}

/// family "faults": victim with timers and a child, a bystander calling it, clients with pending ops
pub fn faults(rng: &mut Rng) -> Program {
    let mut g = G::new(rng);
    // tags: 1 victim, 2 child of the victim, 3 bystander
    let mut v = ActorDecl::plain(1);
    v.mailbox = mailbox_kind(g.rng);
    v.entry = *g.rng.pick(&[Entry::Builder, Entry::BuilderOwning, Entry::Spawn, Entry::SpawnOwning]);
    v.strategy = *g.rng.pick(&[Strategy::RestartOnly, Strategy::Recreate]);
    v.holders = vec![0, 1, 2];
    v.owner = 1;
    let p = g.dur_pos();
    v.started = vec![g.rng.pick(&[SStep::Interval(p), SStep::IntervalWith(p)]).clone()];
    if g.rng.chance(1, 2) {
        v.started.push(SStep::DelayedExec(p + 2));
    }
    if g.rng.chance(1, 4) {
        v.entry = Entry::BuilderOnStream;
        v.strategy = Strategy::NonRestartable;
        v.stream = Some(rand_stream(g.rng));
    }
    let mut c = ActorDecl::plain(2);
    c.holders = vec![0];
    c.entry = Entry::Builder;
    c.mailbox = mailbox_kind(g.rng);
    let mut b = ActorDecl::plain(3);
    b.holders = vec![0, 2];
    b.entry = Entry::Builder;
    let stream = v.entry.stream();
    g.prog.actors = vec![v, c, b];
    g.layout(3);
    // client 0: give the child to the victim, drop own child handle, talk to the child's parent, maybe restart
    let c0 = &mut g.prog.clients[0];
    c0.push(Op::Send { slot: 1, script: vec![PStep::Sleep(1)], cancel: None });
    c0.push(Op::Call { slot: 0, script: vec![PStep::AddChild(1)], cancel: None });
    c0.push(Op::Drop { slot: 1 });
    if !stream && g.rng.chance(1, 2) {
        c0.push(Op::Restart { slot: 0 });
    }
    let d = g.rng.range(0, 4);
    c0.push(Op::Sleep(d));
    c0.push(Op::Call { slot: 0, script: vec![PStep::Yield], cancel: None });
    c0.push(Op::Query { slot: 0, running: true });
    // client 1: operations pending on the victim while it dies
    let c1 = &mut g.prog.clients[1];
    let w = g.rng.range(0, 5);
    c1.push(Op::Call { slot: 0, script: vec![PStep::Sleep(w)], cancel: None });
    c1.push(Op::Send { slot: 0, script: vec![PStep::Yield], cancel: None });
    c1.push(Op::Ping { slot: 0, cancel: None });
    if g.prog.actors[0].entry.owning() {
        c1.push(Op::Stop { slot: 0 });
        c1.push(Op::Join { slot: 3, cancel: None });
    } else if g.rng.chance(1, 2) {
        c1.push(Op::Halt { slot: 0 });
    } else {
        c1.push(Op::Await { slot: 0, by_ref: true });
        // the same handle and clones of it stay usable after it has resolved
        c1.push(Op::Query { slot: 0, running: g.rng.chance(1, 2) });
        c1.push(Op::Clone { slot: 0 });
        let s = 6; // 2*3 initial slots, first pushed slot
        c1.push(Op::Await { slot: s, by_ref: false });
        c1.push(Op::Downgrade { slot: 0 });
        c1.push(Op::Query { slot: s + 1, running: false });
    }
    // client 2: the bystander calls the victim from inside a handler, then keeps answering
    let c2 = &mut g.prog.clients[2];
    let d = g.rng.range(0, 3);
    c2.push(Op::Sleep(d));
    c2.push(Op::Send { slot: 2, script: vec![PStep::CallAddr(0)], cancel: None });
    c2.push(Op::Call { slot: 2, script: vec![], cancel: None });
    c2.push(Op::Call { slot: 2, script: vec![PStep::CallAddr(0)], cancel: None });
    c2.push(Op::Ping { slot: 2, cancel: None });
    g.prog
}

/// family "svcfaults": a service instance is the victim; the registry must treat it as not running afterwards
pub fn svcfaults(rng: &mut Rng) -> Program {
    let mut g = G::new(rng);
    let k = g.rng.range(1, 2) as u8;
    let mut d1 = svc_default(1, g.rng);
    let mut d2 = svc_default(2, g.rng);
    for d in [&mut d1, &mut d2] {
        if g.rng.chance(1, 2) {
            d.started.push(SStep::Interval(2));
        }
    }
    g.prog.defaults = vec![d1, d2];
    let mut fresh = ActorDecl::plain(50);
    fresh.k = k;
    fresh.entry = Entry::Spawn;
    fresh.at_setup = false;
    g.prog.actors.push(fresh);
    g.layout(2);
    let base = g.sk[0].len() as u16;
    let c = &mut g.prog.clients[0];
    c.push(Op::FromRegistry { k }); // base
    c.push(Op::Call { slot: base, script: vec![PStep::Yield], cancel: None });
    c.push(Op::Send { slot: base, script: vec![PStep::Sleep(1)], cancel: None });
    c.push(Op::Call { slot: base, script: vec![], cancel: None });
    c.push(Op::Sleep(3));
    match g.rng.below(4) {
        3 => {
            // the other on-demand entry point: after setup() a live instance is registered
            c.push(Op::Setup { k });
            c.push(Op::TryFromRegistry { k }); // base+1
            c.push(Op::Call { slot: base + 1, script: vec![], cancel: None });
            c.push(Op::AlreadyRunning { k });
        }
        0 => {
            c.push(Op::FromRegistry { k }); // base+1
            c.push(Op::Call { slot: base + 1, script: vec![], cancel: None });
        }
        1 => {
            c.push(Op::TryFromRegistry { k });
            c.push(Op::Call { slot: base + 1, script: vec![], cancel: None });
        }
        _ => {
            c.push(Op::SpawnActor { decl: 0 }); // base+1
            c.push(Op::Register { slot: base + 1 });
            c.push(Op::Call { slot: base + 1, script: vec![], cancel: None });
        }
    }
    let c1 = &mut g.prog.clients[1];
    c1.push(Op::Sleep(1));
    c1.push(Op::FromRegistry { k });
    c1.push(Op::Call { slot: base, script: vec![], cancel: None });
    g.prog
}

/// family "registry": concurrent histories of registry operations on 1-2 service types
pub fn registry(rng: &mut Rng) -> Program {
    let mut g = G::new(rng);
    let nclients = g.rng.range(1, 4) as usize;
    let ntypes = g.rng.range(1, 2) as u8;
    let mut d1 = svc_default(1, g.rng);
    let d2 = svc_default(2, g.rng);
    // release builds only (C08's thorough tier, engine l1r): the first instance a lookup spawns on demand fails in
    // started().  In debug builds the unchanged library panics inside that lookup (`debug_assert!(ping)`), so the
    // debug engines keep first start-ups of on-demand instances healthy; in a release build the lookup hands out the
    // instance, which then dies and stays registered as a terminated entry until somebody replaces it.
    if !cfg!(debug_assertions) && g.rng.chance(1, 5) {
        d1.started_err_at = vec![0];
    }
    g.prog.defaults = vec![d1, d2];
    for k in 1..=2u8 {
        let mut fresh = ActorDecl::plain(50 + k as u32);
        fresh.k = k;
        fresh.entry = Entry::Spawn;
        fresh.at_setup = false;
        fresh.holders = vec![];
        // a service whose started() itself goes through the registry (subscribes to a broker topic)
        if g.rng.chance(1, 4) {
            fresh.started = vec![SStep::Subscribe(0)];
            g.prog.topics = vec![0];
        }
        if g.rng.chance(1, 4) {
            fresh.stopped = vec![SStep::Sleep(*g.rng.pick(&[1u64, 2, 3]))];
        }
        g.prog.actors.push(fresh);
    }
    g.layout(nclients);
    let budget = 14usize;
    let mut used = 0usize;
    for c in 0..nclients {
        let mut nslots = g.sk[c].len() as u16;
        // slots that (may) hold an address of type k
        let mut held: Vec<(u16, u8)> = vec![];
        let n = g.rng.range(1, 5) as usize;
        for _ in 0..n {
            if used >= budget {
                break;
            }
            let k = g.rng.range(1, ntypes as u64) as u8;
            let ops = &mut g.prog.clients[c];
            match g.rng.below(16) {
                15 => {
                    // an instance that has already terminated is installed with replace(): the entry is then a dead
                    // one (already_running says Some(false)), not an empty slot
                    ops.push(Op::SpawnActor { decl: (k - 1) as u16 }); // nslots
                    ops.push(Op::Clone { slot: nslots }); // nslots + 1
                    ops.push(Op::Stop { slot: nslots + 1 });
                    ops.push(Op::Await { slot: nslots + 1, by_ref: true });
                    ops.push(Op::Replace { slot: nslots }); // prev: nslots + 2
                    ops.push(Op::AlreadyRunning { k });
                    held.push((nslots, k));
                    nslots += 3;
                    used += 2;
                }
                14 => {
                    // a lookup that gives up (timeout / select!) while the service it spawned is still starting, then a
                    // patient one: both see the same instance
                    let polls = g.rng.range(0, 3) as u8;
                    ops.push(Op::FromRegistryCancel { k, polls }); // nslots (the address, if it made it in time)
                    ops.push(Op::FromRegistry { k }); // nslots + 1
                    ops.push(Op::Call { slot: nslots + 1, script: vec![], cancel: None });
                    held.push((nslots + 1, k));
                    nslots += 2;
                    used += 2;
                }
                12 => {
                    // a fresh instance is offered to the registry while the client keeps a clone: accepted or refused,
                    // the instance lives on as long as the clone does, and answers through it
                    ops.push(Op::SpawnActor { decl: (k - 1) as u16 }); // nslots
                    ops.push(Op::Clone { slot: nslots }); // nslots + 1
                    ops.push(Op::Register { slot: nslots }); // prev: nslots + 2
                    ops.push(Op::Call { slot: nslots + 1, script: vec![], cancel: None });
                    ops.push(Op::Sleep(1));
                    ops.push(Op::Call { slot: nslots + 1, script: vec![], cancel: None });
                    held.push((nslots + 1, k));
                    nslots += 3;
                    used += 1;
                }
                13 => {
                    // the registered instance itself is offered again: register refuses it (it is running), replace
                    // installs it and hands back the previous entry - which is that very instance
                    ops.push(Op::SpawnActor { decl: (k - 1) as u16 }); // nslots
                    ops.push(Op::Register { slot: nslots }); // prev: nslots + 1
                    ops.push(Op::Clone { slot: nslots }); // nslots + 2
                    if g.rng.chance(1, 2) {
                        ops.push(Op::Register { slot: nslots + 2 }); // prev: nslots + 3
                        ops.push(Op::Call { slot: nslots, script: vec![], cancel: None });
                    } else {
                        ops.push(Op::Replace { slot: nslots + 2 }); // prev: nslots + 3
                        ops.push(Op::Call { slot: nslots + 3, script: vec![], cancel: None });
                    }
                    held.push((nslots, k));
                    nslots += 4;
                    used += 2;
                }
                0..=3 => {
                    ops.push(Op::FromRegistry { k });
                    ops.push(Op::Call { slot: nslots, script: vec![], cancel: None });
                    held.push((nslots, k));
                    nslots += 1;
                    used += 1;
                }
                4 => {
                    ops.push(Op::Setup { k });
                    used += 1;
                }
                5 | 6 => {
                    ops.push(Op::SpawnActor { decl: (k - 1) as u16 });
                    let reg = g.rng.chance(3, 4);
                    ops.push(if reg { Op::Register { slot: nslots } } else { Op::Replace { slot: nslots } });
                    if !reg && g.rng.chance(2, 3) {
                        // learn who the replaced entry was (if it still answers)
                        ops.push(Op::Call { slot: nslots + 1, script: vec![], cancel: None });
                    }
                    held.push((nslots, k));
                    nslots += 2;
                    used += 1;
                }
                7 => {
                    ops.push(Op::Unregister { k });
                    if g.rng.chance(2, 3) {
                        ops.push(Op::Call { slot: nslots, script: vec![], cancel: None });
                    }
                    held.push((nslots, k));
                    nslots += 1;
                    used += 1;
                }
                8 => {
                    ops.push(Op::TryFromRegistry { k });
                    ops.push(Op::Call { slot: nslots, script: vec![], cancel: None });
                    held.push((nslots, k));
                    nslots += 1;
                    used += 1;
                }
                9 => {
                    ops.push(Op::AlreadyRunning { k });
                    used += 1;
                }
                _ => {
                    // terminate an instance we hold
                    if let Some((s, _)) = held.last().copied() {
                        match g.rng.below(3) {
                            0 => ops.push(Op::Stop { slot: s }),
                            1 => ops.push(Op::Send { slot: s, script: vec![PStep::CtxStop], cancel: None }),
                            _ => ops.push(Op::Send { slot: s, script: vec![PStep::Panic], cancel: None }),
                        }
                        if g.rng.chance(1, 2) {
                            ops.push(Op::Yield);
                        }
                    } else {
                        ops.push(Op::AlreadyRunning { k });
                        used += 1;
                    }
                }
            }
            match g.rng.below(6) {
                0 => g.prog.clients[c].push(Op::Yield),
                1 => {
                    let d = g.rng.range(0, 2);
                    g.prog.clients[c].push(Op::Sleep(d))
                }
                _ => {}
            }
        }
        if g.rng.chance(1, 3) {
            g.prog.clients[c].push(Op::DropAll);
        }
    }
    g.prog
}

/// family "broker": 1-3 publishers, 1-4 subscribers, 1-2 topics, subscription changes and terminations racing publishes
pub fn broker(rng: &mut Rng) -> Program {
    let mut g = G::new(rng);
    let nsubs = g.rng.range(1, 4) as usize;
    let ntopics = g.rng.range(1, 2) as u8;
    let npub = g.rng.range(1, 3) as usize;
    g.prog.topics = (0..ntopics).collect();
    // client 0 manages the subscribers; clients 1.. publish
    let nclients = 1 + npub;
    for i in 0..nsubs {
        let mut a = ActorDecl::plain(1 + i as u32);
        a.mailbox = if g.rng.chance(1, 3) { Some(g.rng.range(0, 2) as usize) } else { None };
        a.entry = Entry::Builder;
        a.holders = vec![0];
        // some publishers publish through Context::publish of a subscriber actor they hold
        for c in 1..nclients {
            if g.rng.chance(1, 3) {
                a.holders.push(c as u16);
            }
        }
        if g.rng.chance(1, 2) {
            let t = g.rng.below(ntopics as u64) as u8;
            a.started.push(SStep::Subscribe(t));
        }
        a.aux_work = if g.rng.chance(1, 4) { g.rng.range(1, 2) } else { 0 };
        g.prog.actors.push(a);
    }
    // one case in ten: a subscriber with a tiny bounded mailbox whose handler takes longer than any patience a broker
    // might have (6 or 11 s of virtual time): the fan-out waits for it, and everybody after it in the broker's table
    // still gets every publication, exactly once and in the common order (virtual time only: not on the L2 engine)
    if !crate::oracle::ENGINE_MT && nsubs >= 2 && g.rng.chance(1, 10) {
        let slow = g.rng.below(nsubs as u64) as usize;
        let t = g.rng.below(ntopics as u64) as u8;
        for (i, a) in g.prog.actors.iter_mut().enumerate() {
            if i == slow {
                a.mailbox = Some(g.rng.range(0, 1) as usize);
                a.aux_work = *g.rng.pick(&[6000u64, 11000]);
            }
            if !a.started.iter().any(|s| matches!(s, SStep::Subscribe(_))) {
                a.started.push(SStep::Subscribe(t));
            }
        }
    }
    g.layout(nclients);
    // client 0: subscription management
    let k = g.rng.range(2, 8);
    for _ in 0..k {
        let s = g.rng.below(nsubs as u64) as u16;
        let t = g.rng.below(ntopics as u64) as u8;
        let alive = g.sk[0][s as usize].hk == Hk::Addr;
        let op = match g.rng.below(12) {
            0..=3 if alive => Op::SubscribeExt { slot: s, topic: t },
            4 if alive => Op::Send { slot: s, script: vec![PStep::Subscribe(t)], cancel: None },
            5 | 6 if alive => Op::Unsubscribe { slot: s, topic: t },
            7 => Op::BrokerPing { topic: t },
            8 if alive => {
                g.sk[0][s as usize] = SK { hk: Hk::None, a: usize::MAX };
                match g.rng.below(3) {
                    0 => Op::Stop { slot: s },
                    1 => Op::Drop { slot: s },
                    _ => Op::Send { slot: s, script: vec![PStep::Panic], cancel: None },
                }
            }
            9 => Op::Sleep(g.rng.range(0, 3)),
            // the subscriber's only strong handle becomes a Caller or a Sender (the client keeps that until the end):
            // the actor is as alive as before and keeps receiving publications
            10 if alive && g.prog.actors[s as usize].holders.len() == 1 => {
                let a = g.sk[0][s as usize].a;
                let to_caller = g.rng.chance(1, 2);
                g.prog.clients[0].push(if to_caller { Op::ToCaller { slot: s } } else { Op::ToSender { slot: s } });
                g.sk[0].push(SK { hk: if to_caller { Hk::Caller } else { Hk::Sender }, a });
                g.sk[0][s as usize] = SK { hk: Hk::None, a: usize::MAX };
                Op::Drop { slot: s }
            }
            _ => Op::Yield,
        };
        g.prog.clients[0].push(op);
    }
    // publishers
    for c in 1..nclients {
        let n = g.rng.range(1, 5);
        for _ in 0..n {
            let t = g.rng.below(ntopics as u64) as u8;
            let held = g.slots_of(c, |k| k.hk == Hk::Addr);
            let op = match g.rng.below(8) {
                0..=2 => Op::Publish { topic: t, via: Via::Static },
                3 | 4 => Op::Publish { topic: t, via: Via::Addr },
                5 => Op::Publish { topic: t, via: Via::Try },
                6 if !held.is_empty() => {
                    let s = *g.rng.pick(&held);
                    Op::Call { slot: s, script: vec![PStep::Publish(t)], cancel: None }
                }
                _ => Op::Yield,
            };
            g.prog.clients[c].push(op);
            if g.rng.chance(1, 4) {
                g.prog.clients[c].push(Op::Sleep(g.rng.range(0, 2)));
            }
        }
    }
    // everybody ends with barriers on every topic before letting go of the subscribers
    for c in 0..nclients {
        g.prog.clients[c].push(Op::Sleep(g.rng.range(0, 3)));
        for t in 0..ntopics {
            g.prog.clients[c].push(Op::BrokerPing { topic: t });
        }
    }
    // client 0 waits for the publishers (long sleep), pings again, then drops everything
    g.prog.clients[0].push(Op::Sleep(40));
    for t in 0..ntopics {
        g.prog.clients[0].push(Op::BrokerPing { topic: t });
    }
    g.prog
}

/// family "burst": 2-4 clients each firing long sequence-numbered bursts at one actor that keeps running dry
/// (true-parallel FIFO on L2; cheap in-actor monitor)
pub fn burst(rng: &mut Rng) -> Program {
    let mut g = G::new(rng);
    let nclients = g.rng.range(2, 4) as usize;
    let mut a = ActorDecl::plain(1);
    a.mailbox = if g.rng.chance(2, 3) { None } else { Some(g.rng.range(1, 3) as usize) };
    a.entry = *g.rng.pick(&[Entry::Spawn, Entry::Builder, Entry::Builder]);
    a.holders = (0..nclients as u16).collect();
    g.prog.actors.push(a);
    g.layout(nclients);
    for c in 0..nclients {
        let rounds = g.rng.range(1, 3);
        for _ in 0..rounds {
            let count = *g.rng.pick(&[20u32, 60, 150, 400]);
            let force_every = *g.rng.pick(&[0u8, 0, 3, 7]);
            g.prog.clients[c].push(Op::Burst { slot: 0, count, force_every });
            match g.rng.below(4) {
                0 => g.prog.clients[c].push(Op::Call { slot: 0, script: vec![], cancel: None }),
                1 => g.prog.clients[c].push(Op::Yield),
                2 => g.prog.clients[c].push(Op::Ping { slot: 0, cancel: None }),
                _ => {}
            }
        }
    }
    g.prog
}

/// family "svckeep": registry-spawned services with all client handles dropped; later lookups find the same instance
pub fn svckeep(rng: &mut Rng) -> Program {
    let mut g = G::new(rng);
    let nclients = g.rng.range(1, 3) as usize;
    let mut d1 = svc_default(1, g.rng);
    let mut d2 = svc_default(2, g.rng);
    for d in [&mut d1, &mut d2] {
        if g.rng.chance(1, 2) {
            let p = g.dur_pos();
            d.started.push(if g.rng.chance(1, 2) { SStep::Interval(p) } else { SStep::IntervalWith(p) });
        }
    }
    g.prog.defaults = vec![d1, d2];
    g.layout(nclients);
    for c in 0..nclients {
        let k = g.rng.range(1, 2) as u8;
        let base = g.sk[c].len() as u16;
        let ops = &mut g.prog.clients[c];
        ops.push(if g.rng.chance(1, 4) { Op::Setup { k } } else { Op::FromRegistry { k } });
        let has = matches!(ops[0], Op::FromRegistry { .. });
        let mut next = base;
        if has {
            ops.push(Op::Call { slot: base, script: vec![], cancel: None });
            ops.push(Op::Downgrade { slot: base });
            next = base + 2;
            ops.push(Op::DropAll);
        }
        ops.push(Op::Sleep(g.rng.range(0, 8)));
        match g.rng.below(3) {
            0 => {
                ops.push(Op::TryFromRegistry { k });
                ops.push(Op::Call { slot: next, script: vec![], cancel: None });
            }
            1 => {
                ops.push(Op::FromRegistry { k });
                ops.push(Op::Call { slot: next, script: vec![], cancel: None });
            }
            _ => ops.push(Op::AlreadyRunning { k }),
        }
        ops.push(Op::Sleep(g.rng.range(0, 4)));
    }
    g.prog
}

/// family "mix": every feature at once - several actors of any entry point / strategy / mailbox / stream, handler
/// timeouts, timers in started and handlers, slow callbacks, children, and the full op set with cancels, forks and
/// parked joins.  Its purpose is cross-feature coverage; every oracle must stay silent on it.
pub fn mix(rng: &mut Rng) -> Program {
    let mut g = G::new(rng);
    let nclients = g.rng.range(1, 3) as usize;
    let nact = g.rng.weighted(&[45, 40, 15]) + 1;
    for t in 0..nact {
        let mut a = rand_actor(g.rng, 1 + t as u32, nclients, true);
        if a.entry.builder() && !a.entry.stream() && g.rng.chance(1, 6) {
            let tmo = *g.rng.pick(&[2u64, 3, 5, 8]);
            a.timeout = Some(tmo);
            a.fail_on_timeout = g.rng.chance(1, 3);
            a.cfg_order = g.rng.below(4) as u8;
            // keep tick handlers instantaneous under a timeout unless clearly below saturation
            a.aux_work = 0;
        }
        if g.rng.chance(1, 8) {
            a.started.push(SStep::Sleep(*g.rng.pick(&[1u64, 2, 5])));
        }
        if g.rng.chance(1, 8) {
            a.stopped.push(SStep::Sleep(*g.rng.pick(&[1u64, 2, 5])));
        }
        g.prog.actors.push(a);
    }
    g.layout(nclients);
    // children: actor 2 (and 3) may become a child of actor 1
    if nact >= 2 && g.rng.chance(1, 3) && g.sk[0][0].hk == Hk::Addr && !g.prog.actors[0].entry.stream() {
        for ci in 1..nact {
            if g.sk[0][ci].hk != Hk::Addr || g.rng.chance(1, 3) {
                continue;
            }
            let ty = g.rng.below(3) as u8;
            let step = if ty == 2 { PStep::AddChild(ci as u16) } else { PStep::RegisterChild(ty, ci as u16) };
            g.prog.clients[0].push(Op::Call { slot: 0, script: vec![step], cancel: None });
            if g.rng.chance(1, 2) {
                g.prog.clients[0].push(Op::Drop { slot: ci as u16 });
                g.sk[0][ci] = SK { hk: Hk::None, a: usize::MAX };
            }
        }
    }
    let mut w = W::zero();
    w.send = 22;
    w.call = 20;
    w.ping = 6;
    w.force_send = 3;
    w.stop = 7;
    w.halt = 4;
    w.consume = 3;
    w.consume_sync = 2;
    w.restart = 6;
    w.clone = 4;
    w.downgrade = 5;
    w.upgrade = 5;
    w.conv = 7;
    w.detach = 2;
    w.to_addr = 2;
    w.drop = 8;
    w.drop_all = 2;
    w.await_ = 5;
    w.join = 4;
    w.join_park = 2;
    w.send_park = 3;
    w.query = 4;
    w.yield_ = 6;
    w.sleep = 6;
    w.fork = 3;
    w.cancel_pct = 6;
    w.s_none = 36;
    w.s_yield = 12;
    w.s_sleep = 16;
    w.s_ctx_stop = 5;
    w.s_ctx_restart = 5;
    w.s_interval = 4;
    w.s_interval_with = 3;
    w.s_delayed_send = 3;
    w.s_delayed_exec = 2;
    w.s_weak_self = 2;
    w.s_send_children = 3;
    g.gen_clients(&w, &Shape { clients: (1, 3), ops: (2, 9), final_wait_pct: 50 });
    g.prog
}

/// family "droprace": the last strong handle is dropped by one client while another upgrades a weak handle, both
/// released from a rendezvous at (nearly) the same instant - on L2 that is a race of real threads
pub fn droprace(rng: &mut Rng) -> Program {
    let mut g = G::new(rng);
    let mut a = ActorDecl::plain(1);
    a.mailbox = mailbox_kind(g.rng);
    a.entry = *g.rng.pick(&[Entry::Spawn, Entry::Builder]);
    a.holders = vec![0, 1];
    if g.rng.chance(1, 4) {
        a.stopped = vec![SStep::Sleep(1)];
    }
    g.prog.actors.push(a);
    g.layout(2);
    let j0 = g.rng.range(0, 300) as u16;
    let j1 = g.rng.range(0, 300) as u16;
    // client 1 keeps only a weak handle (slot 2) ...
    let weak_kind = g.rng.below(3);
    g.prog.clients[1].push(match weak_kind {
        0 => Op::Downgrade { slot: 0 },
        1 => Op::ToWeakSender { slot: 0 },
        _ => Op::ToWeakCaller { slot: 0 },
    });
    g.prog.clients[1].push(Op::Drop { slot: 0 });
    // ... client 0 holds the last strong handle, of any kind (slot 0, or a converted one in slot 2)
    let strong_kind = g.rng.below(3);
    let last = match strong_kind {
        0 => 0u16,
        1 => {
            g.prog.clients[0].push(Op::ToSender { slot: 0 });
            g.prog.clients[0].push(Op::Drop { slot: 0 });
            2
        }
        _ => {
            g.prog.clients[0].push(Op::ToCaller { slot: 0 });
            g.prog.clients[0].push(Op::Drop { slot: 0 });
            2
        }
    };
    if g.rng.chance(1, 3) {
        g.prog.clients[0].push(Op::Send { slot: last, script: vec![PStep::Sleep(1)], cancel: None });
    }
    g.prog.clients[0].push(Op::Rendezvous { id: 0, parties: 2, jitter: j0 });
    g.prog.clients[0].push(Op::Drop { slot: last });
    g.prog.clients[1].push(Op::Rendezvous { id: 0, parties: 2, jitter: j1 });
    g.prog.clients[1].push(Op::Upgrade { slot: 2 });
    // whatever the upgrade returned is used, held for a while and dropped (a failed upgrade leaves an empty slot)
    g.prog.clients[1].push(match weak_kind {
        1 => Op::Send { slot: 3, script: vec![], cancel: None },
        _ => Op::Call { slot: 3, script: vec![], cancel: None },
    });
    g.prog.clients[1].push(Op::Sleep(g.rng.range(1, 3)));
    g.prog.clients[1].push(match weak_kind {
        1 => Op::Send { slot: 3, script: vec![], cancel: None },
        _ => Op::Call { slot: 3, script: vec![], cancel: None },
    });
    g.prog.clients[1].push(Op::Drop { slot: 3 });
    g.prog.clients[1].push(Op::Upgrade { slot: 2 });
    g.prog
}

/// family "timeout0": the boundary configuration `.timeout(Duration::ZERO)`: every invocation that needs any time at
/// all is abandoned (an instantaneous one ties with the timer).  Used by C11 only: with t = 0 even the successor of
/// a message may be abandoned before its handler is entered, which the other oracles do not model.
pub fn timeout0(rng: &mut Rng) -> Program {
    let mut g = G::new(rng);
    let mut a = ActorDecl::plain(1);
    a.mailbox = mailbox_kind(g.rng);
    a.entry = Entry::Builder;
    a.timeout = Some(0);
    a.fail_on_timeout = g.rng.chance(1, 3);
    a.cfg_order = g.rng.below(4) as u8;
    a.holders = vec![0];
    g.prog.actors.push(a);
    g.layout(1);
    let k = g.rng.range(1, 5);
    for _ in 0..k {
        let d = *g.rng.pick(&[0u64, 1, 1, 2, 5]);
        let script = vec![PStep::Sleep(d)];
        g.prog.clients[0].push(if g.rng.chance(2, 3) { Op::Call { slot: 0, script, cancel: None } } else { Op::Send { slot: 0, script, cancel: None } });
        if g.rng.chance(1, 4) {
            g.prog.clients[0].push(Op::Sleep(1));
        }
    }
    g.prog
}

/// family "stoprace": several clients request a stop through their own clones at (nearly) the same instant and then
/// submit a message: whoever was told Ok must not get that message handled (C04: stop is a barrier), whichever of
/// the racing requests actually enqueued the Stop - on L2 that is a race of real threads
pub fn stoprace(rng: &mut Rng) -> Program {
    let mut g = G::new(rng);
    let n = g.rng.range(2, 3) as usize;
    // several actors per scenario: one race each (a scenario is expensive on L2, a race is not)
    let nact = g.rng.range(3, 6) as usize;
    for k in 0..nact {
        let mut a = ActorDecl::plain(1 + k as u32);
        a.mailbox = mailbox_kind(g.rng);
        a.entry = *g.rng.pick(&[Entry::Spawn, Entry::Builder]);
        a.holders = (0..n as u16).collect();
        a.owner = (k % n) as u16;
        g.prog.actors.push(a);
    }
    g.layout(n);
    for k in 0..nact {
        // something in the mailbox, so that the actor is busy while the stops race
        if g.rng.chance(1, 2) {
            g.prog.clients[0].push(Op::Send { slot: k as u16, script: vec![PStep::Yield], cancel: None });
        }
        for c in 0..n {
            let j = g.rng.range(0, 60) as u16;
            g.prog.clients[c].push(Op::Rendezvous { id: k as u8, parties: n as u8, jitter: j });
            g.prog.clients[c].push(Op::Stop { slot: k as u16 });
            g.prog.clients[c].push(Op::Call { slot: k as u16, script: vec![], cancel: None });
        }
    }
    for c in 0..n {
        g.prog.clients[c].push(Op::Await { slot: 0, by_ref: false });
    }
    g.prog
}

/// family "bigburst": one client floods an unbounded mailbox with more messages than any fixed-size buffer someone
/// might put behind it (65 536 + a bit); on L1 the actor does not run before the client yields, so the backlog is real
pub fn bigburst(rng: &mut Rng) -> Program {
    let mut g = G::new(rng);
    let mut a = ActorDecl::plain(1);
    a.mailbox = None;
    a.entry = *g.rng.pick(&[Entry::Spawn, Entry::Builder]);
    a.holders = vec![0];
    g.prog.actors.push(a);
    g.layout(1);
    let count = *g.rng.pick(&[66_000u32, 70_000, 33_000, 130_000]);
    g.prog.clients[0].push(Op::Burst { slot: 0, count, force_every: 0 });
    g.prog.clients[0].push(Op::Call { slot: 0, script: vec![], cancel: None });
    g.prog
}

/// family "joinrace": stop, wait for the stop to be announced (await a derived address), join at once - while the
/// actor's task may still be tearing down its context and a long queue of never-handled messages; on L2 the join
/// races that tear-down on another thread.  Several actors (= races) per scenario.
pub fn joinrace(rng: &mut Rng) -> Program {
    let mut g = G::new(rng);
    let nact = g.rng.range(2, 4) as usize;
    for k in 0..nact {
        let mut a = ActorDecl::plain(1 + k as u32);
        a.mailbox = None;
        a.entry = *g.rng.pick(&[Entry::SpawnOwning, Entry::BuilderOwning]);
        a.holders = vec![0];
        a.owner = 0;
        if g.rng.chance(1, 2) {
            a.started = rand_sstep_timers(g.rng, 2);
        }
        g.prog.actors.push(a);
    }
    g.layout(1);
    for k in 0..nact as u16 {
        let own = nact as u16 + k;
        g.prog.clients[0].push(Op::Call { slot: k, script: vec![], cancel: None });
        g.prog.clients[0].push(Op::Stop { slot: k });
        // queued behind the Stop: never handled, dropped when the task goes away
        let count = *g.rng.pick(&[0u32, 200, 2000, 20000]);
        if count > 0 {
            g.prog.clients[0].push(Op::Burst { slot: k, count, force_every: 0 });
        }
        g.prog.clients[0].push(Op::Await { slot: k, by_ref: true });
        g.prog.clients[0].push(Op::Join { slot: own, cancel: None });
    }
    g.prog
}

/// family "svcrestart": a service that the registry itself spawned (from_registry / setup) is restarted from outside
/// and from its own context: it is an ordinary default-strategy actor (same value, state kept)
pub fn svcrestart(rng: &mut Rng) -> Program {
    let mut g = G::new(rng);
    let k = g.rng.range(1, 2) as u8;
    let d1 = svc_default(1, g.rng);
    let d2 = svc_default(2, g.rng);
    g.prog.defaults = vec![d1, d2];
    let mut fresh = ActorDecl::plain(50);
    fresh.k = k;
    fresh.entry = Entry::Spawn;
    fresh.at_setup = false;
    fresh.holders = vec![];
    g.prog.actors.push(fresh);
    g.layout(1);
    let base = g.sk[0].len() as u16;
    let c = &mut g.prog.clients[0];
    if g.rng.chance(1, 3) {
        c.push(Op::Setup { k });
    }
    c.push(Op::FromRegistry { k }); // base
    let n = g.rng.range(1, 3);
    for _ in 0..n {
        c.push(Op::Call { slot: base, script: vec![], cancel: None });
    }
    for _ in 0..g.rng.range(1, 2) {
        if g.rng.chance(1, 2) {
            c.push(Op::Restart { slot: base });
        } else {
            c.push(Op::Send { slot: base, script: vec![PStep::CtxRestart], cancel: None });
        }
        c.push(Op::Ping { slot: base, cancel: None });
        c.push(Op::Call { slot: base, script: vec![], cancel: None });
    }
    c.push(Op::Sleep(1));
    c.push(Op::Call { slot: base, script: vec![], cancel: None });
    g.prog
}
