//! L1: seeded single-threaded executor with a virtual clock, fault plan and task census.
//! No `unsafe`.  One executor per scenario.
use std::collections::{BTreeMap, VecDeque};
use std::future::Future;
use std::pin::Pin;
use std::sync::{Arc, Mutex};
use std::task::{Context, Poll, Wake, Waker};
use std::time::Duration;

use crate::log::{self, K};
use crate::rng::Rng;

pub type LocalFut = Pin<Box<dyn Future<Output = ()> + 'static>>;
pub type BoxFut = Pin<Box<dyn Future<Output = ()> + Send + 'static>>;

pub const UNIT: u64 = 1_000_000; // 1 virtual unit = 1 ms in ns

#[derive(Clone, Copy, Debug, PartialEq, Eq)]
pub enum Policy {
    Uniform,
    /// PCT with d priority-change points
    Pct(u8),
    /// FIFO with k random preemptions
    FifoK(u8),
    /// LIFO-ish: newest runnable first, with k random preemptions
    LifoK(u8),
}

#[derive(Clone, Copy, Debug, PartialEq, Eq)]
pub enum TState {
    Alive,
    Done,
    Cancelled,
    Panicked,
}

#[derive(Clone, Debug)]
pub struct TaskInfo {
    pub kind: &'static str,
    pub parent: u32,
    pub state: TState,
    pub polls: u32,
    pub client: bool,
}

struct Sh {
    now: u64,
    ready: VecDeque<u32>,
    queued: Vec<bool>,
    timers: BTreeMap<(u64, u64), Waker>,
    tseq: u64,
    incoming: Vec<(u32, BoxFut)>,
    cur: u32,
    info: Vec<TaskInfo>,
}

pub struct Shared {
    m: Mutex<Sh>,
}

impl Shared {
    fn lock(&self) -> std::sync::MutexGuard<'_, Sh> {
        self.m.lock().unwrap_or_else(|e| e.into_inner())
    }
    pub fn now(&self) -> u64 {
        self.lock().now
    }
    pub fn cur(&self) -> u32 {
        self.lock().cur
    }
    fn alloc(&self, kind: &'static str, client: bool) -> u32 {
        let mut g = self.lock();
        let id = g.info.len() as u32;
        let parent = g.cur;
        g.info.push(TaskInfo { kind, parent, state: TState::Alive, polls: 0, client });
        g.queued.push(true);
        g.ready.push_back(id);
        drop(g);
        log::log(K::TaskSpawn { task: id, parent, kind });
        id
    }
    pub fn sleep(self: &Arc<Self>, ns: u64) -> VSleep {
        let g = self.lock();
        VSleep { sh: Arc::clone(self), deadline: g.now.saturating_add(ns), key: None }
    }
    pub fn yield_now(&self) -> YieldNow {
        YieldNow(false)
    }
}

struct TaskWaker {
    id: u32,
    sh: Arc<Shared>,
}

impl Wake for TaskWaker {
    fn wake(self: Arc<Self>) {
        self.wake_by_ref()
    }
    fn wake_by_ref(self: &Arc<Self>) {
        let mut g = self.sh.lock();
        let i = self.id as usize;
        if i < g.queued.len() && !g.queued[i] && g.info[i].state == TState::Alive {
            g.queued[i] = true;
            g.ready.push_back(self.id);
        }
    }
}

pub struct VSleep {
    sh: Arc<Shared>,
    deadline: u64,
    key: Option<(u64, u64)>,
}

impl Future for VSleep {
    type Output = ();
    fn poll(self: Pin<&mut Self>, cx: &mut Context<'_>) -> Poll<()> {
        let this = self.get_mut();
        let mut g = this.sh.lock();
        if g.now >= this.deadline {
            if let Some(k) = this.key.take() {
                g.timers.remove(&k);
            }
            return Poll::Ready(());
        }
        let key = match this.key {
            Some(k) => k,
            None => {
                g.tseq += 1;
                let k = (this.deadline, g.tseq);
                this.key = Some(k);
                k
            }
        };
        g.timers.insert(key, cx.waker().clone());
        Poll::Pending
    }
}

impl Drop for VSleep {
    fn drop(&mut self) {
        if let Some(k) = self.key.take() {
            self.sh.lock().timers.remove(&k);
        }
    }
}

pub struct YieldNow(bool);
impl Future for YieldNow {
    type Output = ();
    fn poll(mut self: Pin<&mut Self>, cx: &mut Context<'_>) -> Poll<()> {
        if self.0 {
            Poll::Ready(())
        } else {
            self.0 = true;
            cx.waker().wake_by_ref();
            Poll::Pending
        }
    }
}

#[cfg(feature = "l1")]
pub struct VBackend(pub Arc<Shared>);

#[cfg(feature = "l1")]
impl hannibal::verif::Backend for VBackend {
    fn spawn(&self, output: &'static str, fut: hannibal::verif::BoxFut) {
        let kind = if output.contains("Result<") { "actor" } else { "aux" };
        let id = self.0.alloc(kind, false);
        self.0.lock().incoming.push((id, fut));
    }
    fn sleep(&self, d: Duration, _kind: hannibal::verif::SleepKind) -> hannibal::verif::BoxFut {
        Box::pin(self.0.sleep(d.as_nanos() as u64))
    }
}

thread_local! {
    static LOCAL_SPAWN: std::cell::RefCell<Vec<(u32, LocalFut)>> = const { std::cell::RefCell::new(Vec::new()) };
    static CURRENT: std::cell::RefCell<Option<Arc<Shared>>> = const { std::cell::RefCell::new(None) };
}

pub fn current() -> Option<Arc<Shared>> {
    CURRENT.with(|c| c.borrow().clone())
}

/// spawn a non-Send (client) task on the executor running on this thread
pub fn spawn_local(kind: &'static str, fut: LocalFut) -> u32 {
    let sh = current().expect("no vexec on this thread");
    let id = sh.alloc(kind, true);
    LOCAL_SPAWN.with(|q| q.borrow_mut().push((id, fut)));
    id
}

/// A planned cancellation: drop the `nth` task of kind "actor" (in spawn order) right after its
/// `after_polls`-th poll.
#[derive(Clone, Copy, Debug)]
pub struct CancelPlan {
    pub actor_task_nth: u32,
    pub after_polls: u32,
}

#[derive(Clone, Copy, Debug, PartialEq, Eq)]
pub enum Outcome {
    /// nothing runnable, no timer pending
    Quiescent,
    /// the `until` predicate became true
    Until,
    /// virtual horizon passed
    Horizon,
    /// step cap hit -> inconclusive
    StepCap,
}

pub struct Exec {
    pub sh: Arc<Shared>,
    tasks: Vec<Option<LocalFut>>,
    rng: Rng,
    policy: Policy,
    prio: Vec<u64>,
    change_points: Vec<u64>,
    preempt_left: u8,
    pub steps: u64,
    pub decisions: u64,
    pub multi_choice: u64,
    pub cancel: Option<CancelPlan>,
    pub spurious_permille: u32,
    prev: Option<Arc<Shared>>,
    last_front: Option<usize>,
    front_waited: u32,
}

/// a runnable task is scheduled after at most this many decisions (bounded fairness)
const FAIR_BOUND: u32 = 48;

impl Exec {
    pub fn new(seed: u64, policy: Policy, est_steps: u64) -> Exec {
        let sh = Arc::new(Shared {
            m: Mutex::new(Sh {
                now: 0,
                ready: VecDeque::new(),
                queued: Vec::new(),
                timers: BTreeMap::new(),
                tseq: 0,
                incoming: Vec::new(),
                cur: u32::MAX,
                info: Vec::new(),
            }),
        });
        let mut rng = Rng::new(seed ^ 0x5eed_0001);
        let mut change_points = Vec::new();
        let mut preempt_left = 0;
        match policy {
            Policy::Pct(d) => {
                for _ in 0..d {
                    change_points.push(rng.below(est_steps.max(1)));
                }
            }
            Policy::FifoK(k) | Policy::LifoK(k) => preempt_left = k,
            Policy::Uniform => {}
        }
        let prev = CURRENT.with(|c| c.borrow_mut().replace(Arc::clone(&sh)));
        #[cfg(feature = "l1")]
        hannibal::verif::install(Arc::new(VBackend(Arc::clone(&sh))));
        Exec {
            sh,
            tasks: Vec::new(),
            rng,
            policy,
            prio: Vec::new(),
            change_points,
            preempt_left,
            steps: 0,
            decisions: 0,
            multi_choice: 0,
            cancel: None,
            spurious_permille: 0,
            prev,
            last_front: None,
            front_waited: 0,
        }
    }

    fn absorb(&mut self) {
        let inc: Vec<(u32, BoxFut)> = std::mem::take(&mut self.sh.lock().incoming);
        for (id, f) in inc {
            self.place(id, f);
        }
        let loc: Vec<(u32, LocalFut)> = LOCAL_SPAWN.with(|q| std::mem::take(&mut *q.borrow_mut()));
        for (id, f) in loc {
            self.place(id, f);
        }
    }

    fn place(&mut self, id: u32, f: LocalFut) {
        let i = id as usize;
        while self.tasks.len() <= i {
            self.tasks.push(None);
            self.prio.push(0);
        }
        self.tasks[i] = Some(f);
        // PCT: random distinct-ish priority, all above the "lowered" band
        self.prio[i] = 1_000_000 + self.rng.below(1_000_000);
    }

    fn pick(&mut self) -> Option<u32> {
        let mut g = self.sh.lock();
        let n = g.ready.len();
        if n == 0 {
            return None;
        }
        self.decisions += 1;
        if n > 1 {
            self.multi_choice += 1;
        }
        // bounded fairness: the queue is in wake order, so the front task has waited longest; priority and
        // LIFO policies would otherwise starve it forever next to an always-runnable task
        let front = g.ready[0] as usize;
        if self.last_front == Some(front) {
            self.front_waited += 1;
        } else {
            self.last_front = Some(front);
            self.front_waited = 0;
        }
        let force_front = self.front_waited >= FAIR_BOUND;
        let idx = if force_front { 0 } else { match self.policy {
            Policy::Uniform => self.rng.below(n as u64) as usize,
            Policy::Pct(_) => {
                let mut best = 0usize;
                for (j, t) in g.ready.iter().enumerate() {
                    if self.prio[*t as usize] > self.prio[g.ready[best] as usize] {
                        best = j;
                    }
                }
                if self.change_points.contains(&self.steps) {
                    let t = g.ready[best] as usize;
                    self.prio[t] = self.rng.below(1000);
                }
                best
            }
            Policy::FifoK(_) => {
                if n > 1 && self.preempt_left > 0 && self.rng.below(12) == 0 {
                    self.preempt_left -= 1;
                    self.rng.below(n as u64) as usize
                } else {
                    0
                }
            }
            Policy::LifoK(_) => {
                if n > 1 && self.preempt_left > 0 && self.rng.below(12) == 0 {
                    self.preempt_left -= 1;
                    self.rng.below(n as u64) as usize
                } else {
                    n - 1
                }
            }
        } };
        if idx == 0 {
            self.last_front = None;
            self.front_waited = 0;
        }
        let id = g.ready.remove(idx)?;
        g.queued[id as usize] = false;
        Some(id)
    }

    fn poll_task(&mut self, id: u32) {
        let i = id as usize;
        if i >= self.tasks.len() {
            self.absorb();
        }
        let Some(mut fut) = self.tasks.get_mut(i).and_then(Option::take) else {
            return;
        };
        let waker = Waker::from(Arc::new(TaskWaker { id, sh: Arc::clone(&self.sh) }));
        let mut cx = Context::from_waker(&waker);
        {
            let mut g = self.sh.lock();
            g.cur = id;
            g.info[i].polls += 1;
        }
        let r = std::panic::catch_unwind(std::panic::AssertUnwindSafe(|| fut.as_mut().poll(&mut cx)));
        self.steps += 1;
        let polls = self.sh.lock().info[i].polls;
        match r {
            Ok(Poll::Pending) => {
                let mut cancel_now = false;
                if let Some(c) = self.cancel {
                    let g = self.sh.lock();
                    if g.info[i].kind == "actor" {
                        let nth = g.info[..i].iter().filter(|t| t.kind == "actor").count() as u32;
                        if nth == c.actor_task_nth && polls == c.after_polls {
                            cancel_now = true;
                        }
                    }
                }
                if cancel_now {
                    self.cancel = None;
                    log::log(K::Fault { what: "cancel", arg: polls as u64 });
                    self.sh.lock().info[i].state = TState::Cancelled;
                    let _ = std::panic::catch_unwind(std::panic::AssertUnwindSafe(move || drop(fut)));
                    log::log(K::TaskEnd { task: id, how: "cancelled" });
                } else {
                    self.tasks[i] = Some(fut);
                }
            }
            Ok(Poll::Ready(())) => {
                self.sh.lock().info[i].state = TState::Done;
                let _ = std::panic::catch_unwind(std::panic::AssertUnwindSafe(move || drop(fut)));
                log::log(K::TaskEnd { task: id, how: "done" });
            }
            Err(p) => {
                self.sh.lock().info[i].state = TState::Panicked;
                let msg = crate::panic_msg(&p);
                let _ = std::panic::catch_unwind(std::panic::AssertUnwindSafe(move || drop(fut)));
                log::log(K::TaskEnd { task: id, how: "panicked" });
                log::log(K::Note(format!("task {id} panicked: {msg}")));
            }
        }
        self.sh.lock().cur = u32::MAX;
        self.absorb();
    }

    /// Run until `until()` holds (checked between polls), the system is quiescent with no timer,
    /// the virtual clock passes `horizon`, or `max_steps` polls were made.
    pub fn run(&mut self, horizon: u64, max_steps: u64, mut until: impl FnMut() -> bool) -> Outcome {
        self.absorb();
        loop {
            if until() {
                return Outcome::Until;
            }
            if self.steps >= max_steps {
                return Outcome::StepCap;
            }
            if self.spurious_permille > 0 && self.rng.below(1000) < self.spurious_permille as u64 {
                // spurious poll of a random alive, not-queued task (legal under the Future contract)
                let cand: Vec<u32> = {
                    let g = self.sh.lock();
                    (0..g.info.len() as u32)
                        .filter(|t| g.info[*t as usize].state == TState::Alive && !g.queued[*t as usize])
                        .collect()
                };
                if !cand.is_empty() {
                    let t = cand[self.rng.below(cand.len() as u64) as usize];
                    self.poll_task(t);
                    continue;
                }
            }
            match self.pick() {
                Some(id) => self.poll_task(id),
                None => {
                    // quiescent: advance the clock
                    log::log(K::Quiescent);
                    crate::actors::note_ready_streams();
                    let mut g = self.sh.lock();
                    let Some((&(deadline, _), _)) = g.timers.iter().next() else {
                        return Outcome::Quiescent;
                    };
                    if deadline > horizon {
                        return Outcome::Horizon;
                    }
                    g.now = deadline;
                    let keys: Vec<(u64, u64)> =
                        g.timers.range((deadline, 0)..=(deadline, u64::MAX)).map(|(k, _)| *k).collect();
                    let mut wakers = Vec::new();
                    for k in keys {
                        if let Some(w) = g.timers.remove(&k) {
                            wakers.push(w);
                        }
                    }
                    drop(g);
                    // wake order is shuffled: expiries at the same instant race
                    self.rng.shuffle(&mut wakers);
                    for w in wakers {
                        w.wake();
                    }
                }
            }
        }
    }

    pub fn census(&self) -> Vec<TaskInfo> {
        self.sh.lock().info.clone()
    }

    pub fn pending_timers(&self) -> usize {
        self.sh.lock().timers.len()
    }
}

impl Drop for Exec {
    fn drop(&mut self) {
        // drop all tasks (their destructors may log / wake)
        let tasks = std::mem::take(&mut self.tasks);
        for t in tasks.into_iter().flatten() {
            let _ = std::panic::catch_unwind(std::panic::AssertUnwindSafe(move || drop(t)));
        }
        let inc = std::mem::take(&mut self.sh.lock().incoming);
        drop(inc);
        LOCAL_SPAWN.with(|q| q.borrow_mut().clear());
        #[cfg(feature = "l1")]
        hannibal::verif::uninstall();
        let prev = self.prev.take();
        CURRENT.with(|c| *c.borrow_mut() = prev);
    }
}
