//! splitmix64-seeded xorshift; deterministic, no dependencies
#[derive(Clone, Debug)]
pub struct Rng(u64);

impl Rng {
    pub fn new(seed: u64) -> Rng {
        let mut z = seed.wrapping_add(0x9e3779b97f4a7c15);
        z = (z ^ (z >> 30)).wrapping_mul(0xbf58476d1ce4e5b9);
        z = (z ^ (z >> 27)).wrapping_mul(0x94d049bb133111eb);
        z ^= z >> 31;
        Rng(if z == 0 { 0x1234_5678_9abc_def1 } else { z })
    }
    pub fn next(&mut self) -> u64 {
        let mut x = self.0;
        x ^= x << 13;
        x ^= x >> 7;
        x ^= x << 17;
        self.0 = x;
        x.wrapping_mul(0x2545F4914F6CDD1D)
    }
    pub fn below(&mut self, n: u64) -> u64 {
        if n == 0 { 0 } else { self.next() % n }
    }
    pub fn range(&mut self, lo: u64, hi_incl: u64) -> u64 {
        lo + self.below(hi_incl - lo + 1)
    }
    pub fn chance(&mut self, num: u64, den: u64) -> bool {
        self.below(den) < num
    }
    pub fn pick<'a, T>(&mut self, v: &'a [T]) -> &'a T {
        &v[self.below(v.len() as u64) as usize]
    }
    /// weighted choice: returns index
    pub fn weighted(&mut self, w: &[u32]) -> usize {
        let total: u64 = w.iter().map(|x| *x as u64).sum();
        let mut r = self.below(total.max(1));
        for (i, x) in w.iter().enumerate() {
            if r < *x as u64 {
                return i;
            }
            r -= *x as u64;
        }
        w.len() - 1
    }
    pub fn shuffle<T>(&mut self, v: &mut [T]) {
        for i in (1..v.len()).rev() {
            let j = self.below(i as u64 + 1) as usize;
            v.swap(i, j);
        }
    }
}
