//! L3 xrt: the same timing-independent single-client programs on tokio / async-std / smol builds of
//! hannibal (no hook).  Writes one normalised outcome record per (entry point, program) cell; the python
//! driver compares the records of the three builds.
use std::fmt::Write as _;
use std::sync::Arc;

use crate::actors::{self, SStep};
use crate::interp::{Env, run_client};
use crate::log::{self, Cb, K, Mk, OpK, Res, Uid};
use crate::prog::*;
use crate::rt;
use crate::scenario;

fn jstr(s: &str) -> String {
    let mut o = String::from("\"");
    for ch in s.chars() {
        match ch {
            '"' => o.push_str("\\\""),
            '\\' => o.push_str("\\\\"),
            '\n' => o.push_str("\\n"),
            c if (c as u32) < 0x20 => {
                let _ = write!(o, "\\u{:04x}", c as u32);
            }
            c => o.push(c),
        }
    }
    o.push('"');
    o
}

pub struct Cell {
    pub name: String,
    pub prog: Program,
}

fn actor(entry: Entry, strategy: Strategy, mailbox: Option<usize>) -> ActorDecl {
    let mut a = ActorDecl::plain(1);
    a.entry = entry;
    a.strategy = strategy;
    a.mailbox = mailbox;
    a.holders = vec![0];
    a.owner = 0;
    if entry.stream() {
        // a stream that never yields and never ends: the actor lives until stopped / dropped
        a.stream = Some(crate::actors::StreamSpec { bursts: vec![], repeat: false, ends: false, always_ready: false });
    }
    a
}

/// program templates; `own` = the entry yields an OwningAddr (slot 1), the Addr clone is slot 0
fn programs(entry: Entry) -> Vec<(&'static str, Vec<Op>)> {
    let own = entry.owning();
    let stream = entry.stream();
    let call = |slot| Op::Call { slot, script: vec![], cancel: None };
    let send = |slot| Op::Send { slot, script: vec![], cancel: None };
    let mut v: Vec<(&'static str, Vec<Op>)> = vec![];
    // the spawned actor runs on the runtime's own workers: it starts although the client blocks its thread
    v.push(("starts_while_client_blocks", vec![Op::AwaitLogSync { tag: 1, what: 3, count: 1 }, Op::Ping { slot: 0, cancel: None }, Op::Stop { slot: 0 }, Op::Await { slot: 0, by_ref: false }]));
    // alive after the spawn call returned and the client yielded
    v.push(("alive_then_stop_await", vec![Op::Sleep(20), Op::Ping { slot: 0, cancel: None }, send(0), send(0), call(0), Op::Stop { slot: 0 }, Op::Await { slot: 0, by_ref: false }, Op::AwaitLog { tag: 1, what: 0, count: 1 }]));
    v.push(("halt", vec![Op::Yield, call(0), Op::Halt { slot: 0 }, Op::AwaitLog { tag: 1, what: 0, count: 1 }]));
    v.push(("ctx_stop", vec![call(0), Op::Send { slot: 0, script: vec![PStep::CtxStop], cancel: None }, Op::Await { slot: 0, by_ref: true }, call(0)]));
    v.push(("delayed_send_observed", vec![Op::Call { slot: 0, script: vec![PStep::DelayedSend(1)], cancel: None }, Op::AwaitLog { tag: 1, what: 1, count: 1 }, call(0), Op::Stop { slot: 0 }, Op::Await { slot: 0, by_ref: false }]));
    v.push(("interval_observed", vec![Op::Call { slot: 0, script: vec![PStep::Interval(1)], cancel: None }, Op::AwaitLog { tag: 1, what: 1, count: 3 }, call(0), Op::Stop { slot: 0 }, Op::Await { slot: 0, by_ref: false }]));
    v.push(("delayed_exec_observed", vec![Op::Call { slot: 0, script: vec![PStep::DelayedExec(1)], cancel: None }, Op::AwaitLog { tag: 1, what: 2, count: 1 }, Op::Ping { slot: 0, cancel: None }, Op::Stop { slot: 0 }, Op::Await { slot: 0, by_ref: false }]));
    // an interval's first tick comes one full period after it was requested - not at once: a one-shot timer with a
    // fraction of that delay, requested right after it, is delivered first (20 ms against 300 ms: far apart even on a loaded machine)
    v.push(("first_tick_order", vec![Op::Call { slot: 0, script: vec![PStep::Interval(300), PStep::DelayedSend(20)], cancel: None }, Op::AwaitLog { tag: 1, what: 1, count: 2 }, call(0), Op::Stop { slot: 0 }, Op::Await { slot: 0, by_ref: false }]));
    // timers die with the actor on every runtime: a job due in 300 ms does not run when its actor stopped at once,
    // and after a restart the previous incarnation's pending job does not run either
    if matches!(entry, Entry::Spawn | Entry::BuilderOwning | Entry::SpawnDefault) {
        v.push(("pending_exec_dies_with_actor", vec![Op::Call { slot: 0, script: vec![PStep::DelayedExec(300)], cancel: None }, Op::Stop { slot: 0 }, Op::Await { slot: 0, by_ref: true }, Op::Sleep(500)]));
    }
    if matches!(entry, Entry::Builder) {
        v.push(("pending_exec_dies_with_incarnation", vec![Op::Call { slot: 0, script: vec![PStep::DelayedExec(300)], cancel: None }, Op::Restart { slot: 0 }, Op::Ping { slot: 0, cancel: None }, Op::Sleep(500), call(0), Op::Stop { slot: 0 }, Op::Await { slot: 0, by_ref: false }]));
    }
    v.push(("weak_handles", vec![Op::Downgrade { slot: 0 }, Op::ToWeakSender { slot: 0 }, Op::ToCaller { slot: 0 }, Op::Upgrade { slot: 2 }, Op::Upgrade { slot: 3 }, Op::Call { slot: 4, script: vec![], cancel: None }, Op::Stop { slot: 2 }, Op::Await { slot: 0, by_ref: false }, Op::Upgrade { slot: 2 }]));
    if !stream {
        v.push(("restart_then_call", vec![call(0), Op::Restart { slot: 0 }, call(0), Op::Send { slot: 0, script: vec![PStep::CtxRestart], cancel: None }, Op::Ping { slot: 0, cancel: None }, call(0), Op::Stop { slot: 0 }, Op::Await { slot: 0, by_ref: false }]));
    }
    if own {
        v.push(("stop_join", vec![send(1), call(1), Op::Stop { slot: 0 }, Op::Join { slot: 1, cancel: None }, Op::Join { slot: 1, cancel: None }]));
        v.push(("consume", vec![send(1), call(0), Op::Consume { slot: 1 }, Op::Ping { slot: 0, cancel: None }]));
        v.push(("consume_sync", vec![call(1), Op::ConsumeSync { slot: 1 }, Op::Join { slot: 2, cancel: None }]));
        v.push(("detach_keeps_running", vec![call(1), Op::Detach { slot: 1 }, Op::Sleep(20), Op::Ping { slot: 2, cancel: None }, call(0), Op::Stop { slot: 0 }, Op::Await { slot: 2, by_ref: false }]));
        v.push(("drop_owning_clone_alive", vec![call(1), Op::Drop { slot: 1 }, Op::Sleep(20), Op::Ping { slot: 0, cancel: None }, call(0), Op::Stop { slot: 0 }, Op::Await { slot: 0, by_ref: false }]));
        v.push(("drop_everything", vec![call(1), Op::Downgrade { slot: 0 }, Op::Drop { slot: 0 }, Op::Drop { slot: 1 }, Op::AwaitLog { tag: 1, what: 0, count: 1 }, Op::Upgrade { slot: 2 }]));
        // a join future that was polled and then dropped must not affect the actor
        v.push(("join_dropped_then_call", vec![call(1), Op::Join { slot: 1, cancel: Some(1) }, Op::Sleep(20), Op::Ping { slot: 0, cancel: None }, call(0), Op::Stop { slot: 0 }, Op::Await { slot: 0, by_ref: false }]));
        // a pending (parked) join future, then a second join: the second one resolves at once with None
        v.push(("join_parked_then_second_join", vec![call(1), Op::JoinPark { slot: 1, polls: 1 }, Op::Join { slot: 1, cancel: None }, Op::Ping { slot: 0, cancel: None }, Op::Stop { slot: 0 }, Op::Join { slot: 2, cancel: None }]));
        // a join future that is created but never polled takes nothing: dropped or kept, a later join gets the actor
        v.push(("join_unpolled_dropped_then_join", vec![call(1), Op::JoinPark { slot: 1, polls: 0 }, Op::Drop { slot: 2 }, Op::Stop { slot: 0 }, Op::Join { slot: 1, cancel: None }]));
        v.push(("join_unpolled_kept_then_join", vec![call(1), Op::JoinPark { slot: 1, polls: 0 }, Op::Stop { slot: 0 }, Op::Join { slot: 1, cancel: None }, Op::Join { slot: 2, cancel: None }]));
        // a client panics (and catches it) while it holds the OwningAddr / a polled join future: the handle is dropped
        // by the unwinding, the actor is unaffected as long as another handle exists
        v.push(("owning_dropped_while_panicking", vec![call(1), Op::DropPanicking { slot: 1 }, Op::Sleep(20), Op::Ping { slot: 0, cancel: None }, call(0), Op::Stop { slot: 0 }, Op::Await { slot: 0, by_ref: false }]));
        // (the join handle went with the dropped future, so the final join answers None at once: the program waits for the
        // termination through the address first, or the record would depend on how far the tear-down got)
        v.push(("join_future_dropped_while_panicking", vec![call(1), Op::JoinPark { slot: 1, polls: 1 }, Op::DropPanicking { slot: 2 }, Op::Sleep(20), Op::Ping { slot: 0, cancel: None }, call(0), Op::Stop { slot: 0 }, Op::Await { slot: 0, by_ref: true }, Op::Join { slot: 1, cancel: None }]));
        // a pending join future, then detach: returns, actor keeps running
        v.push(("join_parked_then_detach", vec![call(1), Op::JoinPark { slot: 1, polls: 1 }, Op::Detach { slot: 1 }, Op::Ping { slot: 3, cancel: None }, Op::Stop { slot: 3 }, Op::Await { slot: 3, by_ref: false }]));
        // a join future created before the detach outlives the OwningAddr: awaited after the actor was stopped through
        // the detached address it still yields the actor (the handle was never joined), whether or not it had been polled
        v.push(("join_unpolled_then_detach_then_join", vec![call(1), Op::JoinPark { slot: 1, polls: 0 }, Op::Detach { slot: 1 }, Op::Ping { slot: 3, cancel: None }, Op::Stop { slot: 3 }, Op::Join { slot: 2, cancel: None }]));
        v.push(("join_polled_then_detach_then_join", vec![call(1), Op::JoinPark { slot: 1, polls: 1 }, Op::Detach { slot: 1 }, Op::Ping { slot: 3, cancel: None }, Op::Stop { slot: 3 }, Op::Join { slot: 2, cancel: None }]));
    } else {
        v.push(("drop_everything", vec![call(0), Op::Downgrade { slot: 0 }, Op::Drop { slot: 0 }, Op::AwaitLog { tag: 1, what: 0, count: 1 }, Op::Upgrade { slot: 2 }]));
    }
    v
}

pub fn catalogue() -> Vec<Cell> {
    let mut cells = vec![];
    let plain = [Entry::Spawn, Entry::SpawnOwning, Entry::SpawnDefault, Entry::DefaultSpawnOwning, Entry::OnStream, Entry::OwningOnStream];
    for e in plain {
        for (pn, ops) in programs(e) {
            let mut p = Program::new();
            p.actors.push(actor(e, Strategy::RestartOnly, None));
            p.clients.push(ops);
            cells.push(Cell { name: format!("{e:?}/{pn}"), prog: p });
        }
    }
    for e in [Entry::Builder, Entry::BuilderOwning] {
        for st in [Strategy::RestartOnly, Strategy::Recreate, Strategy::NonRestartable] {
            for mb in [None, Some(1usize)] {
                for (pn, ops) in programs(e) {
                    let mut p = Program::new();
                    p.actors.push(actor(e, st, mb));
                    p.clients.push(ops);
                    cells.push(Cell { name: format!("{e:?}[{st:?},{mb:?}]/{pn}"), prog: p });
                }
            }
        }
    }
    for e in [Entry::BuilderOnStream, Entry::BuilderOnStreamOwning, Entry::BuilderWithStream, Entry::BuilderWithStreamOwning] {
        for mb in [None, Some(1usize)] {
            for (pn, ops) in programs(e) {
                let mut p = Program::new();
                p.actors.push(actor(e, Strategy::NonRestartable, mb));
                p.clients.push(ops);
                cells.push(Cell { name: format!("{e:?}[{mb:?}]/{pn}"), prog: p });
            }
        }
    }
    // many actors alive at the same time (more than any small pool a back end might run actors on): every one of them
    // starts, answers and stops
    {
        const N: u16 = 520;
        let mut p = Program::new();
        p.actors.push(actor(Entry::Spawn, Strategy::RestartOnly, None));
        let mut many = ActorDecl::plain(60);
        many.entry = Entry::Spawn;
        many.at_setup = false;
        many.holders = vec![];
        p.actors.push(many);
        let mut ops = vec![Op::Call { slot: 0, script: vec![], cancel: None }];
        for _ in 0..N {
            ops.push(Op::SpawnActor { decl: 1 });
        }
        // slots 0..3 belong to the two declarations; the spawned addresses follow
        for s in [4 + N - 1, 4, 4 + N / 2, 4 + N - 2] {
            ops.push(Op::Call { slot: s, script: vec![], cancel: None });
        }
        ops.push(Op::DropAll);
        ops.push(Op::AwaitLog { tag: 60, what: 0, count: N as u32 });
        p.clients.push(ops);
        cells.push(Cell { name: "Spawn/many_actors_alive".to_string(), prog: p });
    }
    // a finite stream: the actor ends with the stream
    for e in [Entry::OnStream, Entry::BuilderOnStream, Entry::BuilderWithStreamOwning] {
        let mut p = Program::new();
        let mut a = actor(e, Strategy::NonRestartable, None);
        a.stream = Some(crate::actors::StreamSpec { bursts: vec![(1, 3)], repeat: false, ends: true, always_ready: false });
        p.actors.push(a);
        p.clients.push(vec![Op::Await { slot: 0, by_ref: true }, Op::AwaitLog { tag: 1, what: 0, count: 1 }, Op::Ping { slot: 0, cancel: None }]);
        cells.push(Cell { name: format!("{e:?}/finite_stream_ends_actor"), prog: p });
    }
    // service entry points
    for k in [1u8] {
        let mk = |ops: Vec<Op>| {
            let mut p = Program::new();
            let mut d = ActorDecl::plain(9000 + k as u32);
            d.k = k;
            d.started = vec![SStep::Yield];
            p.defaults = vec![d.clone(), {
                let mut d2 = d.clone();
                d2.k = 2;
                d2.tag = 9002;
                d2
            }];
            let mut fresh = ActorDecl::plain(50);
            fresh.k = k;
            fresh.entry = Entry::Spawn;
            fresh.at_setup = false;
            fresh.holders = vec![];
            p.actors.push(fresh);
            p.clients.push(ops);
            p
        };
        let call = |slot| Op::Call { slot, script: vec![], cancel: None };
        cells.push(Cell { name: "from_registry/alive".into(), prog: mk(vec![Op::FromRegistry { k }, Op::Sleep(20), Op::Ping { slot: 2, cancel: None }, call(2), Op::FromRegistry { k }, call(3), Op::AlreadyRunning { k }, Op::Stop { slot: 2 }, Op::Await { slot: 2, by_ref: true }, Op::AlreadyRunning { k }, Op::FromRegistry { k }, call(4)]) });
        cells.push(Cell { name: "setup/alive".into(), prog: mk(vec![Op::Setup { k }, Op::Sleep(20), Op::TryFromRegistry { k }, Op::Ping { slot: 2, cancel: None }, call(2), Op::AlreadyRunning { k }]) });
        cells.push(Cell { name: "register/alive".into(), prog: mk(vec![Op::SpawnActor { decl: 0 }, Op::Register { slot: 2 }, Op::Sleep(20), Op::Ping { slot: 2, cancel: None }, Op::FromRegistry { k }, call(4), Op::Unregister { k }, Op::AlreadyRunning { k }, Op::Stop { slot: 2 }, Op::Await { slot: 2, by_ref: false }]) });
        // an actor handler uses the synchronous try_from_registry (of the *other* service type) while the client is
        // inside the first from_registry of this one (which, in debug builds, pings the new instance under the
        // registry's write lock): whatever the lookup answers, everything completes on every runtime
        {
            let mut p = mk(vec![
                Op::Send { slot: 0, script: vec![PStep::Sleep(2), PStep::TryFromRegistry(2), PStep::Yield, PStep::TryFromRegistry(k)], cancel: None },
                Op::FromRegistry { k },
                Op::Ping { slot: 0, cancel: None },
                call(2),
                Op::Call { slot: 0, script: vec![PStep::TryFromRegistry(k)], cancel: None },
                Op::Stop { slot: 0 },
                Op::Await { slot: 0, by_ref: false },
            ]);
            // the new service instance takes its time in started(): the registry's write lock is held meanwhile, and the
            // handler's lookups (after 2 units) fall into that window by a wide margin
            for d in p.defaults.iter_mut() {
                d.started = vec![SStep::Sleep(8)];
            }
            let mut x = ActorDecl::plain(1);
            x.holders = vec![0];
            // decl 0 stays the never-spawned service declaration; the plain actor is decl 1 (slots 1 and 3)
            p.actors.push(x);
            // slots: [0: svc addr (empty), 1: plain addr, 2: svc owning (empty), 3: plain owning (empty)]
            for ops in p.clients.iter_mut() {
                for o in ops.iter_mut() {
                    match o {
                        Op::Send { slot, .. } | Op::Ping { slot, .. } | Op::Stop { slot } | Op::Await { slot, .. } if *slot == 0 => *slot = 1,
                        Op::Call { slot, .. } if *slot == 0 => *slot = 1,
                        Op::Call { slot, .. } if *slot == 2 => *slot = 4,
                        _ => {}
                    }
                }
            }
            cells.push(Cell { name: "try_from_registry_in_handler_while_spawning".into(), prog: p });
        }
        cells.push(Cell { name: "replace/alive".into(), prog: mk(vec![Op::FromRegistry { k }, Op::SpawnActor { decl: 0 }, Op::Replace { slot: 3 }, Op::Sleep(20), Op::Ping { slot: 3, cancel: None }, Op::Ping { slot: 2, cancel: None }, Op::FromRegistry { k }, call(5)]) });
    }
    cells
}

/// normalised, timing-independent outcome record of the trace in the log
fn record(evs: &[log::Ev], watchdog: bool) -> String {
    let client_msgs: std::collections::HashSet<Uid> = evs.iter().filter_map(|e| if let K::OpB { msg, .. } = &e.k { Some(*msg) } else { None }).collect();
    let mut ops: Vec<String> = vec![];
    let mut opk: std::collections::HashMap<(u16, u16), (OpK, crate::log::Hk)> = Default::default();
    for e in evs {
        match &e.k {
            K::OpB { c, i, op, hk, .. } => {
                opk.insert((*c, *i), (*op, *hk));
            }
            K::OpE { c, i, res } => {
                let (op, hk) = opk.get(&(*c, *i)).copied().unwrap_or((OpK::Yield, crate::log::Hk::None));
                if matches!(op, OpK::Yield | OpK::Sleep) {
                    continue;
                }
                let r = match res {
                    Res::Reply { .. } => "Reply".to_string(),
                    // which error an operation on a dead actor yields depends on how far its task has been torn down
                    Res::Err(e) if *e != "still_running" && *e != "timeout" => "Err".to_string(),
                    Res::Joined(Some(v)) => format!("Joined(Some(client_msgs_handled={}))", v.handled.iter().filter(|u| client_msgs.contains(u)).count()),
                    Res::Inst { .. } => "Spawned".to_string(),
                    Res::Prev { ok, err, prev } => format!("Prev(ok={ok},err={err:?},prev_some={})", prev.is_some()),
                    other => format!("{other:?}"),
                };
                ops.push(format!("{op:?}[{hk:?}]={r}"));
            }
            _ => {}
        }
    }
    // pending ops
    for e in evs {
        if let K::OpB { c, i, op, .. } = &e.k {
            if !evs.iter().any(|x| matches!(&x.k, K::OpE { c: c2, i: i2, .. } if c2 == c && i2 == i)) {
                ops.push(format!("{op:?}=PENDING"));
            }
        }
    }
    // callback strings per tag (ticks folded into a flag)
    let mut tags: std::collections::BTreeMap<u32, (String, bool)> = Default::default();
    // per (tag, object) strings: a tag shared by many concurrently living actors (cell `many_actors_alive`) is recorded as
    // a multiset of per-actor strings, because the interleaving of *different* actors' call-backs is not fixed
    let mut per_obj: std::collections::BTreeMap<(u32, Uid), String> = Default::default();
    for e in evs {
        match &e.k {
            K::CbOut { cb, tag, ok, obj, .. } => {
                let s = &mut tags.entry(*tag).or_default().0;
                let c = match cb {
                    Cb::Started => "S",
                    Cb::Stopped => "T",
                    Cb::Finished => "F",
                };
                s.push_str(c);
                let po = per_obj.entry((*tag, *obj)).or_default();
                po.push_str(c);
                if !ok {
                    s.push('!');
                    po.push('!');
                }
                s.push(' ');
                po.push(' ');
            }
            K::HOut { mk, .. } => {
                // handler events are matched to their tag by the preceding HIn
                let _ = mk;
            }
            K::HIn { mk, tag, obj, .. } => {
                let t = tags.entry(*tag).or_default();
                match mk {
                    Mk::Tick => t.1 = true,
                    Mk::Item => t.0.push_str("item "),
                    m => {
                        let _ = write!(t.0, "H:{m:?} ");
                        let _ = write!(per_obj.entry((*tag, *obj)).or_default(), "H:{m:?} ");
                    }
                }
            }
            _ => {}
        }
    }
    // which timer delivered first (by kind): a one-shot with a short delay comes before the first tick of an interval
    // with a long period on every runtime (only recorded when the two are far apart: see the cell `first_tick_order`)
    let mut kind_of: std::collections::HashMap<Uid, &'static str> = Default::default();
    let mut first_order: Vec<&'static str> = vec![];
    let mut seen: std::collections::HashSet<Uid> = Default::default();
    for e in evs {
        match &e.k {
            K::TimerReg { id, kind, .. } => {
                kind_of.insert(*id, kind);
            }
            K::HIn { mk: Mk::Tick, msg, .. } => {
                if seen.insert(*msg) {
                    if let Some(k) = kind_of.get(msg) {
                        first_order.push(k);
                    }
                }
            }
            _ => {}
        }
    }
    let first_order = if first_order.len() >= 2 && first_order.contains(&"delayed_send") && first_order.contains(&"interval") { format!(", \"first_deliveries\": {:?}", first_order) } else { String::new() };
    // how many delayed_exec jobs ran at all (a job whose actor stopped long before its delay elapsed never runs)
    let execs = evs.iter().filter(|e| matches!(&e.k, K::Exec { .. })).count();
    let first_order = format!("{first_order}, \"execs\": {execs}");
    for (t, (s, _)) in tags.iter_mut() {
        let objs: Vec<&String> = per_obj.iter().filter(|((tt, _), _)| tt == t).map(|(_, v)| v).collect();
        if objs.len() > 8 {
            let mut multi: std::collections::BTreeMap<&str, usize> = Default::default();
            for o in &objs {
                *multi.entry(o.trim_end()).or_default() += 1;
            }
            *s = multi.iter().map(|(k, n)| format!("{n} x [{k}]")).collect::<Vec<_>>().join(" ");
        }
    }
    let cbs: Vec<String> = tags.iter().map(|(t, (s, tick))| format!("tag{t}: {}{}", s.trim_end(), if *tick { " +ticks" } else { "" })).collect();
    format!("{{\"ops\": [{}], \"callbacks\": [{}]{first_order}, \"watchdog\": {watchdog}}}", ops.iter().map(|o| jstr(o)).collect::<Vec<_>>().join(", "), cbs.iter().map(|o| jstr(o)).collect::<Vec<_>>().join(", "))
}

fn run_cell(cell: &Cell) -> (String, usize) {
    // a cell may block its thread for good (e.g. a blocking lock): run it on a thread of its own and give up
    // after a generous wall-clock limit; the record then says HUNG (the driver re-runs such cells before judging)
    let (tx, rx) = std::sync::mpsc::channel();
    let prog = cell.prog.clone();
    let name = cell.name.clone();
    std::thread::spawn(move || {
        let r = run_cell_inner(&Cell { name, prog });
        let _ = tx.send(r);
    });
    match rx.recv_timeout(std::time::Duration::from_secs(12)) {
        Ok(r) => r,
        Err(_) => {
            let evs = log::take();
            let mut r = record(&evs, true);
            r = r.replace("\"watchdog\": true", "\"watchdog\": true, \"hung\": true");
            (r, evs.len())
        }
    }
}

fn run_cell_inner(cell: &Cell) -> (String, usize) {
    log::reset();
    actors::reset_globals();
    rt::reset_clock();
    let prog = cell.prog.clone();
    let watchdog = rt::block_on(async move {
        scenario::decl_defaults(&prog);
        let (mut tables, reaper) = scenario::setup_tables(&prog);
        drop(reaper);
        let env = Env::new(prog.clone());
        let table = tables.remove(0);
        let ops = prog.clients[0].clone();
        let client = run_client(Arc::clone(&env), 0, ops, table);
        let wd = rt::sleep(20_000);
        let timed_out = futures::future::select(client, wd).await;
        let w = matches!(timed_out, futures::future::Either::Right(_));
        scenario::cleanup(vec![]).await;
        // let detached tasks observe the cleanup: every handle is gone now, so every actor that started terminates and
        // its value is dropped.  Wait for that (a fixed 5 ms was not enough on a loaded machine: a record then lacked
        // the `stopped()` call-back on one runtime only), at most 1.5 s - an actor that survives (or a value that was
        // handed to the client) shows in the record, the same way on every runtime.
        for round in 0..300 {
            rt::sleep(5).await;
            let alive = log::with(|evs| {
                let mut started: Vec<Uid> = vec![];
                for e in evs {
                    match &e.k {
                        K::CbIn { cb: Cb::Started, obj, .. } if !started.contains(obj) => started.push(*obj),
                        K::ObjDrop { obj, .. } => started.retain(|o| o != obj),
                        _ => {}
                    }
                }
                started.len()
            });
            if alive == 0 && round >= 1 {
                break;
            }
        }
        w
    });
    let evs = log::take();
    if std::env::var("XRT_TRACE").map(|v| v == cell.name).unwrap_or(false) {
        for e in &evs {
            eprintln!("{}", log::fmt_ev(e));
        }
    }
    (record(&evs, watchdog), evs.len())
}

pub fn run(out: &str, repeat: u32) {
    let cells = catalogue();
    let mut s = String::from("{\"cells\": {\n");
    let mut events = 0usize;
    let n = cells.len();
    for (i, c) in cells.iter().enumerate() {
        let mut recs = vec![];
        for _ in 0..repeat {
            let t0 = std::time::Instant::now();
            let (r, e) = run_cell(c);
            if std::env::var("XRT_SLOW").is_ok() && t0.elapsed().as_millis() > 1000 {
                eprintln!("slow cell {} {} ms", c.name, t0.elapsed().as_millis());
            }
            events += e;
            if !recs.contains(&r) {
                recs.push(r);
            }
        }
        let _ = write!(s, " {}: {{\"program\": {}, \"records\": [{}]}}{}\n", jstr(&c.name), jstr(&format!("{:?}", c.prog.clients[0])), recs.join(", "), if i + 1 < n { "," } else { "" });
    }
    let _ = write!(s, "}}, \"events\": {events}, \"cells_run\": {n}, \"repeat\": {repeat}}}\n");
    std::fs::write(out, s).expect("write xrt result");
}
