//! Client program interpreter: executes `Op`s against real hannibal handles and records
//! begin/end events at the client boundary.
use std::future::Future;
use std::sync::Arc;
use std::sync::atomic::{AtomicU16, AtomicU32, Ordering};

use futures::future::LocalBoxFuture;
use hannibal::{Caller, Sender, Service, WeakCaller, WeakSender};

use crate::actors::*;
use crate::dynh::*;
use crate::log::{self, Hk, K, OpK, Path, Res, Uid};
use crate::prog::*;
use crate::rt;

pub enum H {
    Empty,
    Addr(Box<dyn DynAddr>),
    Owning(Box<dyn DynOwning>),
    Weak(Box<dyn DynWeak>),
    Sender(Sender<Fire>),
    Caller(Caller<Ask>),
    WSender(WeakSender<Fire>),
    WCaller(WeakCaller<Ask>),
    JoinFut(JoinFut),
    ConsumeFut(LocalBoxFuture<'static, hannibal::error::Result<crate::log::JoinVal>>),
    SendFut { f: std::pin::Pin<Box<dyn Future<Output = hannibal::error::Result<()>> + Send>>, c0: u16, i0: u16 },
}

impl H {
    pub fn hk(&self) -> Hk {
        match self {
            H::Empty => Hk::None,
            H::Addr(_) => Hk::Addr,
            H::Owning(_) => Hk::Owning,
            H::Weak(_) => Hk::Weak,
            H::Sender(_) => Hk::Sender,
            H::Caller(_) => Hk::Caller,
            H::WSender(_) => Hk::WeakSender,
            H::WCaller(_) => Hk::WeakCaller,
            H::JoinFut(_) => Hk::Join,
            H::SendFut { .. } => Hk::Fut,
            H::ConsumeFut(_) => Hk::OwnFut,
        }
    }
}

pub struct Slot {
    pub h: H,
    pub tag: u32,
    pub c: u16,
}

impl Slot {
    pub fn empty() -> Slot {
        Slot { h: H::Empty, tag: u32::MAX, c: 0 }
    }
    /// wrap a freshly created handle (logs the reference-model increment *after* creation)
    pub fn mk(h: H, tag: u32, c: u16) -> Slot {
        let hk = h.hk();
        if hk.strong() {
            log::log(K::Ref { tag, hk, delta: 1, c });
        }
        Slot { h, tag, c }
    }
    /// take the handle out without logging a release (the caller accounts for it)
    pub fn take(&mut self) -> H {
        std::mem::replace(&mut self.h, H::Empty)
    }
    pub fn release_logged(&mut self) {
        let hk = self.h.hk();
        if hk.strong() {
            log::log(K::Ref { tag: self.tag, hk, delta: -1, c: self.c });
        }
    }
}

impl Drop for Slot {
    fn drop(&mut self) {
        // reference-model decrement is logged *before* the real drop, `RefGone` after it
        let hk = self.h.hk();
        self.release_logged();
        if hk.strong() {
            let h = self.take();
            let parked = if let H::SendFut { c0, i0, .. } = &h { Some((*c0, *i0)) } else { None };
            drop(h);
            log::log(K::RefGone { tag: self.tag, hk, c: self.c });
            if let Some((c0, i0)) = parked {
                // a parked submission dropped before it completed is a cancelled operation
                log::log(K::OpE { c: c0, i: i0, res: Res::Cancelled });
            }
        }
    }
}

pub struct Env {
    /// weak handles of actors created by client ops (the scenario runner's reaper stops them if clients get stuck)
    pub reaper: std::sync::Mutex<Vec<(u32, Box<dyn DynWeak>)>>,
    pub burst_next: std::sync::Mutex<std::collections::HashMap<u16, u32>>,
    pub rendezvous: [AtomicU32; 8],
    pub prog: Program,
    pub next_client: AtomicU16,
    pub clients_started: AtomicU32,
    pub clients_done: AtomicU32,
}

impl Env {
    pub fn new(prog: Program) -> Arc<Env> {
        let n = prog.clients.len() as u16;
        Arc::new(Env {
            reaper: Default::default(),
            burst_next: Default::default(),
            rendezvous: Default::default(),
            prog,
            next_client: AtomicU16::new(n),
            clients_started: AtomicU32::new(0),
            clients_done: AtomicU32::new(0),
        })
    }
    /// first sequence number of the next burst of client `c`
    pub fn burst_base(&self, c: u16, count: u32) -> u32 {
        let mut g = self.burst_next.lock().unwrap_or_else(|e| e.into_inner());
        let e = g.entry(c).or_insert(0);
        let b = *e;
        *e += count;
        b
    }
    pub fn all_done(&self) -> bool {
        self.clients_done.load(Ordering::SeqCst) >= self.clients_started.load(Ordering::SeqCst)
    }
}

fn res_of(r: hannibal::error::Result<()>) -> Res {
    match r {
        Ok(()) => Res::Ok,
        Err(e) => Res::Err(err_name(&e)),
    }
}

fn res_reply(r: hannibal::error::Result<Reply>) -> Res {
    match r {
        Ok(rep) => Res::Reply { msg: rep.msg, actor: rep.actor, obj: rep.obj, seq: rep.seq, fold: rep.fold },
        Err(e) => Res::Err(err_name(&e)),
    }
}

fn resolve(script: &[PStep], slots: &[Slot]) -> Vec<Step> {
    let addr0 = |s: u16| -> Option<hannibal::Addr<Probe<0>>> {
        match slots.get(s as usize).map(|s| &s.h) {
            Some(H::Addr(a)) => a.as_addr0(),
            Some(H::Owning(o)) => o.to_addr().as_addr0(),
            _ => None,
        }
    };
    script
        .iter()
        .map(|p| match p {
            PStep::Yield => Step::Yield,
            PStep::Sleep(d) => Step::Sleep(*d),
            PStep::CtxStop => Step::CtxStop,
            PStep::CtxRestart => Step::CtxRestart,
            PStep::Interval(d) => Step::Interval(log::uid(), *d),
            PStep::IntervalWith(d) => Step::IntervalWith(log::uid(), *d),
            PStep::DelayedSend(d) => Step::DelayedSend(log::uid(), *d),
            PStep::DelayedExec(d) => Step::DelayedExec(log::uid(), *d),
            PStep::AddChild(s) => addr0(*s).map(|a| Step::AddChild(a, slots[*s as usize].tag)).unwrap_or(Step::Yield),
            PStep::RegisterChild(t, s) => addr0(*s).map(|a| Step::RegisterChild(*t, a, slots[*s as usize].tag)).unwrap_or(Step::Yield),
            PStep::SendToChildren(t) => Step::SendToChildren(*t, log::uid()),
            PStep::Subscribe(t) => Step::Subscribe(*t),
            PStep::Publish(t) => Step::Publish(*t, log::uid()),
            PStep::Panic => Step::Panic,
            PStep::CallAddr(s) => addr0(*s).map(|a| Step::CallAddr(a, log::uid())).unwrap_or(Step::Yield),
            PStep::WeakSelf => Step::WeakSelf,
            PStep::TryFromRegistry(k) => Step::TryFromRegistry(*k),
            PStep::ExportWeakSender => Step::ExportWeakSender,
        })
        .collect()
}

/// child handles handed to a parent through a script: the reference model must know
fn log_script_refs(script: &[PStep], slots: &[Slot], c: u16) {
    for p in script {
        if let PStep::AddChild(s) | PStep::RegisterChild(_, s) = p {
            if let Some(sl) = slots.get(*s as usize) {
                if matches!(sl.h, H::Addr(_) | H::Owning(_)) {
                    // the handle now travels inside a message and ends up in the parent's child list
                    log::log(K::Ref { tag: sl.tag, hk: Hk::Sender, delta: 1, c: 1000 + c });
                }
            }
        }
    }
}

async fn watched<F: Future>(c: u16, i: u16, fut: F, cancel: Option<u8>) -> Option<F::Output> {
    let (r, pending) = Watched::new(fut, cancel).await;
    log::log(K::OpPolls { c, i, pending });
    r
}

pub fn run_client(env: Arc<Env>, c: u16, ops: Vec<Op>, mut slots: Vec<Slot>) -> LocalBoxFuture<'static, ()> {
    Box::pin(async move {
        for (i, op) in ops.into_iter().enumerate() {
            exec_op(&env, c, i as u16, op, &mut slots).await;
        }
        log::log(K::ClientDone { c });
        drop(slots);
        env.clients_done.fetch_add(1, Ordering::SeqCst);
    })
}

fn begin(c: u16, i: u16, op: OpK, hk: Hk, path: Path, tag: u32, msg: Uid, slot: u16, arg: u64) {
    log::log(K::OpB { c, i, op, hk, path, tag, msg, slot, arg });
}
fn end(c: u16, i: u16, res: Res) {
    log::log(K::OpE { c, i, res });
}

fn push(slots: &mut Vec<Slot>, s: Slot) -> u16 {
    slots.push(s);
    (slots.len() - 1) as u16
}

/// always pushes exactly one slot (the previous registry entry or Empty); returns the slot if Some
fn push_prev(slots: &mut Vec<Slot>, prev: Option<Box<dyn DynAddr>>, k: u8, c: u16) -> Option<u64> {
    match prev {
        Some(p) => Some(push(slots, Slot::mk(H::Addr(p), 9000 + k as u32, c)) as u64),
        None => {
            push(slots, Slot::empty());
            None
        }
    }
}

async fn exec_op(env: &Arc<Env>, c: u16, i: u16, op: Op, slots: &mut Vec<Slot>) {
    let tag_of = |slots: &Vec<Slot>, s: u16| slots.get(s as usize).map(|x| x.tag).unwrap_or(u32::MAX);
    let hk_of = |slots: &Vec<Slot>, s: u16| slots.get(s as usize).map(|x| x.h.hk()).unwrap_or(Hk::None);
    match op {
        Op::Send { slot, script, cancel } => {
            let uid = log::uid();
            let (tag, hk) = (tag_of(slots, slot), hk_of(slots, slot));
            let steps = resolve(&script, slots);
            begin(c, i, OpK::Send, hk, Path::Waiting, tag, uid, slot, 0);
            let m = Fire { uid, script: steps };
            let r = match slots.get(slot as usize).map(|s| &s.h) {
                Some(H::Addr(a)) => Some(watched(c, i, a.send(m), cancel).await),
                Some(H::Owning(a)) => Some(watched(c, i, a.send(m), cancel).await),
                Some(H::Sender(a)) => Some(watched(c, i, a.send(m), cancel).await),
                Some(H::WSender(a)) => Some(watched(c, i, a.try_send(m), cancel).await),
                _ => None,
            };
            if r.is_some() {
                log_script_refs(&script, slots, c);
            }
            end(c, i, match r {
                None => Res::Skipped,
                Some(None) => Res::Cancelled,
                Some(Some(r)) => res_of(r),
            });
        }
        Op::Call { slot, script, cancel } => {
            let uid = log::uid();
            let (tag, hk) = (tag_of(slots, slot), hk_of(slots, slot));
            let steps = resolve(&script, slots);
            let path = if matches!(hk, Hk::Addr | Hk::Owning) { Path::Forcing } else { Path::Waiting };
            begin(c, i, OpK::Call, hk, path, tag, uid, slot, 0);
            let m = Ask { uid, script: steps };
            let r = match slots.get(slot as usize).map(|s| &s.h) {
                Some(H::Addr(a)) => Some(watched(c, i, a.call(m), cancel).await),
                Some(H::Owning(a)) => Some(watched(c, i, a.call(m), cancel).await),
                Some(H::Caller(a)) => Some(watched(c, i, a.call(m), cancel).await),
                Some(H::WCaller(a)) => Some(watched(c, i, a.try_call(m), cancel).await),
                _ => None,
            };
            if r.is_some() {
                log_script_refs(&script, slots, c);
            }
            end(c, i, match r {
                None => Res::Skipped,
                Some(None) => Res::Cancelled,
                Some(Some(r)) => res_reply(r),
            });
        }
        Op::Ping { slot, cancel } => {
            let (tag, hk) = (tag_of(slots, slot), hk_of(slots, slot));
            begin(c, i, OpK::Ping, hk, Path::Forcing, tag, 0, slot, 0);
            let r = match slots.get(slot as usize).map(|s| &s.h) {
                Some(H::Addr(a)) => Some(watched(c, i, a.ping(), cancel).await),
                Some(H::Owning(a)) => Some(watched(c, i, a.ping(), cancel).await),
                _ => None,
            };
            end(c, i, match r {
                None => Res::Skipped,
                Some(None) => Res::Cancelled,
                Some(Some(r)) => res_of(r),
            });
        }
        Op::ForceSend { slot } => {
            let uid = log::uid();
            let (tag, hk) = (tag_of(slots, slot), hk_of(slots, slot));
            begin(c, i, OpK::ForceSend, hk, Path::Forcing, tag, uid, slot, 0);
            let r = match slots.get(slot as usize).map(|s| &s.h) {
                Some(H::WSender(a)) => res_of(a.try_force_send(Fire { uid, script: vec![] })),
                _ => Res::Skipped,
            };
            end(c, i, r);
        }
        Op::Burst { slot, count, force_every } => {
            let (tag, hk) = (tag_of(slots, slot), hk_of(slots, slot));
            begin(c, i, OpK::Burst, hk, Path::Waiting, tag, 0, slot, count as u64);
            let r = match slots.get(slot as usize).map(|s| &s.h) {
                Some(H::Addr(a)) => {
                    let ws = a.weak_sender_seq();
                    let mut ok = 0u64;
                    let mut waited = 0u32;
                    // sequence numbers continue over the bursts of one client
                    let base = env.burst_base(c, count);
                    for k in 0..count {
                        let m = Seq { client: c, n: base + k };
                        let r = if force_every > 0 && k % force_every as u32 == force_every as u32 - 1 {
                            ws.try_force_send(m)
                        } else {
                            // one explicit first poll: did this send have to wait?
                            let mut f = a.send_seq(m);
                            match futures::poll!(&mut f) {
                                std::task::Poll::Ready(r) => r,
                                std::task::Poll::Pending => {
                                    waited += 1;
                                    f.await
                                }
                            }
                        };
                        if r.is_ok() {
                            ok += 1;
                        } else {
                            break;
                        }
                    }
                    log::log(K::OpPolls { c, i, pending: waited });
                    Res::Count(ok)
                }
                _ => Res::Skipped,
            };
            end(c, i, r);
        }
        Op::Stop { slot } => {
            let (tag, hk) = (tag_of(slots, slot), hk_of(slots, slot));
            begin(c, i, OpK::Stop, hk, Path::Forcing, tag, 0, slot, 0);
            let r = match slots.get_mut(slot as usize).map(|s| &mut s.h) {
                Some(H::Addr(a)) => res_of(a.stop()),
                Some(H::Weak(a)) => res_of(a.try_stop()),
                _ => Res::Skipped,
            };
            end(c, i, r);
        }
        Op::Halt { slot } => {
            let (tag, hk) = (tag_of(slots, slot), hk_of(slots, slot));
            begin(c, i, OpK::Halt, hk, Path::Forcing, tag, 0, slot, 0);
            let r = match hk {
                Hk::Addr => {
                    let H::Addr(a) = slots[slot as usize].take() else { unreachable!() };
                    let r = a.halt().await;
                    log::log(K::Ref { tag, hk: Hk::Addr, delta: -1, c });
                    log::log(K::RefGone { tag, hk: Hk::Addr, c });
                    res_of(r)
                }
                Hk::Weak => {
                    let Some(H::Weak(a)) = slots.get_mut(slot as usize).map(|s| &mut s.h) else { unreachable!() };
                    res_of(a.try_halt().await)
                }
                _ => Res::Skipped,
            };
            end(c, i, r);
        }
        Op::Consume { slot } => {
            let (tag, hk) = (tag_of(slots, slot), hk_of(slots, slot));
            begin(c, i, OpK::Consume, hk, Path::Forcing, tag, 0, slot, 0);
            let r = if hk == Hk::Owning {
                let H::Owning(a) = slots[slot as usize].take() else { unreachable!() };
                let r = a.consume().await;
                log::log(K::Ref { tag, hk: Hk::Owning, delta: -1, c });
                log::log(K::RefGone { tag, hk: Hk::Owning, c });
                match r {
                    Ok(v) => Res::Joined(Some(v)),
                    Err(e) => Res::Err(err_name(&e)),
                }
            } else {
                Res::Skipped
            };
            end(c, i, r);
        }
        Op::ConsumeSync { slot } => {
            let (tag, hk) = (tag_of(slots, slot), hk_of(slots, slot));
            begin(c, i, OpK::ConsumeSync, hk, Path::Forcing, tag, 0, slot, 0);
            let r = if hk == Hk::Owning {
                let H::Owning(a) = slots[slot as usize].take() else { unreachable!() };
                let r = a.consume_sync();
                log::log(K::Ref { tag, hk: Hk::Owning, delta: -1, c });
                log::log(K::RefGone { tag, hk: Hk::Owning, c });
                match r {
                    Ok(f) => {
                        let s = push(slots, Slot::mk(H::JoinFut(f), tag, c));
                        Res::Handle { slot: s, some: true }
                    }
                    Err(e) => {
                        push(slots, Slot::empty());
                        Res::Err(err_name(&e))
                    }
                }
            } else {
                push(slots, Slot::empty());
                Res::Skipped
            };
            end(c, i, r);
        }
        Op::Restart { slot } => {
            let (tag, hk) = (tag_of(slots, slot), hk_of(slots, slot));
            begin(c, i, OpK::Restart, hk, Path::Forcing, tag, 0, slot, 0);
            let r = match slots.get_mut(slot as usize).map(|s| &mut s.h) {
                Some(H::Addr(a)) => res_of(a.restart()),
                _ => Res::Skipped,
            };
            end(c, i, r);
        }
        Op::Clone { slot } => {
            let (tag, hk) = (tag_of(slots, slot), hk_of(slots, slot));
            begin(c, i, OpK::Clone, hk, Path::NA, tag, 0, slot, 0);
            let h = match slots.get(slot as usize).map(|s| &s.h) {
                Some(H::Addr(a)) => Some(H::Addr(a.clone_box())),
                Some(H::Weak(a)) => Some(H::Weak(a.clone_box())),
                Some(H::Sender(a)) => Some(H::Sender(a.clone())),
                Some(H::Caller(a)) => Some(H::Caller(a.clone())),
                Some(H::WSender(a)) => Some(H::WSender(a.clone())),
                Some(H::WCaller(a)) => Some(H::WCaller(a.clone())),
                _ => None,
            };
            let r = match h {
                Some(h) => Res::Handle { slot: push(slots, Slot::mk(h, tag, c)), some: true },
                None => {
                    push(slots, Slot::empty());
                    Res::Skipped
                }
            };
            end(c, i, r);
        }
        Op::Downgrade { slot } | Op::ToWeakSender { slot } | Op::ToWeakCaller { slot } | Op::ToSender { slot } | Op::ToCaller { slot } | Op::ToAddr { slot } => {
            let (tag, hk) = (tag_of(slots, slot), hk_of(slots, slot));
            let opk = match op {
                Op::Downgrade { .. } => OpK::Downgrade,
                Op::ToWeakSender { .. } => OpK::ToWeakSender,
                Op::ToWeakCaller { .. } => OpK::ToWeakCaller,
                Op::ToSender { .. } => OpK::ToSender,
                Op::ToCaller { .. } => OpK::ToCaller,
                _ => OpK::ToAddr,
            };
            begin(c, i, opk, hk, Path::NA, tag, 0, slot, 0);
            // conversions work from Addr and (through as_addr) from OwningAddr
            let base: Option<Box<dyn DynAddr>> = match slots.get(slot as usize).map(|s| &s.h) {
                Some(H::Addr(a)) => Some(a.clone_box()),
                Some(H::Owning(o)) => Some(o.to_addr()),
                _ => None,
            };
            let h = match (opk, slots.get(slot as usize).map(|s| &s.h)) {
                (OpK::Downgrade, Some(H::Sender(s))) => Some(H::WSender(s.downgrade())),
                (OpK::Downgrade, Some(H::Caller(s))) => Some(H::WCaller(s.downgrade())),
                (OpK::Downgrade, _) => base.as_ref().map(|a| H::Weak(a.downgrade())),
                (OpK::ToWeakSender, _) => base.as_ref().map(|a| H::WSender(a.weak_sender())),
                (OpK::ToWeakCaller, _) => base.as_ref().map(|a| H::WCaller(a.weak_caller())),
                (OpK::ToSender, _) => base.as_ref().map(|a| H::Sender(a.sender())),
                (OpK::ToCaller, _) => base.as_ref().map(|a| H::Caller(a.caller())),
                (_, Some(H::Owning(o))) => Some(H::Addr(o.to_addr())),
                _ => None,
            };
            let r = match h {
                Some(h) => Res::Handle { slot: push(slots, Slot::mk(h, tag, c)), some: true },
                None => {
                    push(slots, Slot::empty());
                    Res::Skipped
                }
            };
            drop(base);
            end(c, i, r);
        }
        Op::Upgrade { slot } => {
            let (tag, hk) = (tag_of(slots, slot), hk_of(slots, slot));
            begin(c, i, OpK::Upgrade, hk, Path::NA, tag, 0, slot, 0);
            let h: Option<Option<H>> = match slots.get(slot as usize).map(|s| &s.h) {
                Some(H::Weak(a)) => Some(a.upgrade().map(H::Addr)),
                Some(H::WSender(a)) => Some(a.upgrade().map(H::Sender)),
                Some(H::WCaller(a)) => Some(a.upgrade().map(H::Caller)),
                _ => None,
            };
            let r = match h {
                Some(Some(h)) => Res::Handle { slot: push(slots, Slot::mk(h, tag, c)), some: true },
                Some(None) => Res::Handle { slot: push(slots, Slot::empty()), some: false },
                None => {
                    push(slots, Slot::empty());
                    Res::Skipped
                }
            };
            end(c, i, r);
        }
        Op::Detach { slot } => {
            let (tag, hk) = (tag_of(slots, slot), hk_of(slots, slot));
            begin(c, i, OpK::Detach, hk, Path::NA, tag, 0, slot, 0);
            let r = if hk == Hk::Owning {
                let H::Owning(o) = slots[slot as usize].take() else { unreachable!() };
                let a = o.detach();
                let s = push(slots, Slot::mk(H::Addr(a), tag, c));
                log::log(K::Ref { tag, hk: Hk::Owning, delta: -1, c });
                log::log(K::RefGone { tag, hk: Hk::Owning, c });
                Res::Handle { slot: s, some: true }
            } else {
                push(slots, Slot::empty());
                Res::Skipped
            };
            end(c, i, r);
        }
        Op::Drop { slot } => {
            let (tag, hk) = (tag_of(slots, slot), hk_of(slots, slot));
            begin(c, i, OpK::Drop, hk, Path::NA, tag, 0, slot, 0);
            if let Some(s) = slots.get_mut(slot as usize) {
                let old = std::mem::replace(s, Slot::empty());
                drop(old);
            }
            end(c, i, Res::Ok);
        }
        Op::ImportWeakSender { slot } => {
            let (tag, hk) = (tag_of(slots, slot), hk_of(slots, slot));
            begin(c, i, OpK::ToWeakSender, hk, Path::NA, tag, 0, slot, 1);
            let r = match crate::actors::take_exported(tag) {
                Some(ws) => Res::Handle { slot: push(slots, Slot::mk(H::WSender(ws), tag, c)), some: true },
                None => {
                    push(slots, Slot::empty());
                    Res::Skipped
                }
            };
            end(c, i, r);
        }
        Op::DropPanicking { slot } => {
            let (tag, hk) = (tag_of(slots, slot), hk_of(slots, slot));
            begin(c, i, OpK::DropPanicking, hk, Path::NA, tag, 0, slot, 0);
            if let Some(s) = slots.get_mut(slot as usize) {
                let old = std::mem::replace(s, Slot::empty());
                // the slot (and with it the handle) is dropped by the unwinding itself
                let _ = std::panic::catch_unwind(std::panic::AssertUnwindSafe(move || {
                    let _held = old;
                    std::panic::panic_any(crate::actors::InjectedPanic);
                }));
            }
            end(c, i, Res::Ok);
        }
        Op::DropAll => {
            begin(c, i, OpK::Drop, Hk::None, Path::NA, u32::MAX, 0, u16::MAX, 0);
            for s in slots.iter_mut() {
                let old = std::mem::replace(s, Slot::empty());
                drop(old);
            }
            end(c, i, Res::Ok);
        }
        Op::Await { slot, by_ref } => {
            let (tag, hk) = (tag_of(slots, slot), hk_of(slots, slot));
            begin(c, i, if by_ref { OpK::AwaitRef } else { OpK::Await }, hk, Path::NA, tag, 0, slot, 0);
            let r = if hk == Hk::Addr {
                if by_ref {
                    let Some(H::Addr(a)) = slots.get_mut(slot as usize).map(|s| &mut s.h) else { unreachable!() };
                    res_of(std::future::poll_fn(|cx| a.poll_ref(cx)).await)
                } else {
                    let H::Addr(a) = slots[slot as usize].take() else { unreachable!() };
                    // the awaiting future owns a strong handle until it resolves
                    let r = a.into_await().await;
                    log::log(K::Ref { tag, hk: Hk::Addr, delta: -1, c });
                    log::log(K::RefGone { tag, hk: Hk::Addr, c });
                    res_of(r)
                }
            } else {
                Res::Skipped
            };
            end(c, i, r);
        }
        Op::Join { slot, cancel } => {
            let (tag, hk) = (tag_of(slots, slot), hk_of(slots, slot));
            begin(c, i, OpK::Join, hk, Path::NA, tag, 0, slot, 0);
            let r = match hk {
                Hk::Owning => {
                    let Some(H::Owning(o)) = slots.get_mut(slot as usize).map(|s| &mut s.h) else { unreachable!() };
                    let f = o.join();
                    match watched(c, i, f, cancel).await {
                        Some(v) => Res::Joined(v),
                        None => Res::Cancelled,
                    }
                }
                Hk::Join => {
                    let H::JoinFut(f) = slots[slot as usize].take() else { unreachable!() };
                    match watched(c, i, f, cancel).await {
                        Some(v) => Res::Joined(v),
                        None => Res::Cancelled,
                    }
                }
                _ => Res::Skipped,
            };
            end(c, i, r);
        }
        Op::JoinPark { slot, polls } => {
            let (tag, hk) = (tag_of(slots, slot), hk_of(slots, slot));
            begin(c, i, OpK::JoinPark, hk, Path::NA, tag, 0, slot, polls as u64);
            let r = if hk == Hk::Owning {
                let Some(H::Owning(o)) = slots.get_mut(slot as usize).map(|s| &mut s.h) else { unreachable!() };
                let mut f = o.join();
                let mut done = None;
                for _ in 0..polls {
                    match futures::poll!(&mut f) {
                        std::task::Poll::Ready(v) => {
                            done = Some(v);
                            break;
                        }
                        std::task::Poll::Pending => rt::yield_now().await,
                    }
                }
                match done {
                    Some(v) => {
                        push(slots, Slot::empty());
                        Res::Joined(v)
                    }
                    None => {
                        let s = push(slots, Slot::mk(H::JoinFut(f), tag, c));
                        Res::Handle { slot: s, some: true }
                    }
                }
            } else {
                push(slots, Slot::empty());
                Res::Skipped
            };
            end(c, i, r);
        }
        Op::SendPark { slot, script, polls } => {
            let uid = log::uid();
            let tag = tag_of(slots, slot);
            let fut = match slots.get(slot as usize).map(|s| &s.h) {
                Some(H::Sender(a)) => {
                    let steps = resolve(&script, slots);
                    begin(c, i, OpK::Send, Hk::Sender, Path::Waiting, tag, uid, slot, 1 + polls as u64);
                    Some(a.send(Fire { uid, script: steps }))
                }
                _ => None,
            };
            match fut {
                Some(mut f) => {
                    log_script_refs(&script, slots, c);
                    let mut done = None;
                    for _ in 0..polls {
                        match futures::poll!(&mut f) {
                            std::task::Poll::Ready(v) => {
                                done = Some(v);
                                break;
                            }
                            std::task::Poll::Pending => rt::yield_now().await,
                        }
                    }
                    match done {
                        Some(r) => {
                            push(slots, Slot::empty());
                            end(c, i, res_of(r));
                        }
                        None => {
                            // the operation stays open: its end is logged when the future completes or is dropped
                            push(slots, Slot::mk(H::SendFut { f, c0: c, i0: i }, tag, c));
                        }
                    }
                }
                None => {
                    begin(c, i, OpK::Send, hk_of(slots, slot), Path::Waiting, tag, uid, slot, 1 + polls as u64);
                    push(slots, Slot::empty());
                    end(c, i, Res::Skipped);
                }
            }
        }
        Op::ConsumePark { slot } => {
            let (tag, hk) = (tag_of(slots, slot), hk_of(slots, slot));
            begin(c, i, OpK::ConsumePark, hk, Path::NA, tag, 0, slot, 0);
            let r = if hk == Hk::Owning {
                let H::Owning(a) = slots[slot as usize].take() else { unreachable!() };
                // lazy: nothing is sent and nothing is given up before the first poll
                let f = a.consume();
                let s = push(slots, Slot::mk(H::ConsumeFut(f), tag, c));
                log::log(K::Ref { tag, hk: Hk::Owning, delta: -1, c });
                Res::Handle { slot: s, some: true }
            } else {
                push(slots, Slot::empty());
                Res::Skipped
            };
            end(c, i, r);
        }
        Op::AwaitParked { slot } if hk_of(slots, slot) == Hk::OwnFut => {
            // the first poll of the consume future is the stop request: this is the Consume operation proper
            let tag = tag_of(slots, slot);
            begin(c, i, OpK::Consume, Hk::Owning, Path::Forcing, tag, 0, slot, 1);
            let H::ConsumeFut(f) = slots[slot as usize].take() else { unreachable!() };
            let r = f.await;
            log::log(K::Ref { tag, hk: Hk::OwnFut, delta: -1, c });
            log::log(K::RefGone { tag, hk: Hk::OwnFut, c });
            end(c, i, match r {
                Ok(v) => Res::Joined(Some(v)),
                Err(e) => Res::Err(err_name(&e)),
            });
        }
        Op::AwaitParked { slot } => {
            let (tag, hk) = (tag_of(slots, slot), hk_of(slots, slot));
            begin(c, i, OpK::AwaitParked, hk, Path::NA, tag, 0, slot, 0);
            let r = if hk == Hk::Fut {
                let H::SendFut { f, c0, i0 } = slots[slot as usize].take() else { unreachable!() };
                let r = watched(c0, i0, f, None).await;
                end(c0, i0, match r {
                    Some(r) => res_of(r),
                    None => Res::Cancelled,
                });
                log::log(K::Ref { tag, hk: Hk::Fut, delta: -1, c });
                log::log(K::RefGone { tag, hk: Hk::Fut, c });
                Res::Ok
            } else {
                Res::Skipped
            };
            end(c, i, r);
        }
        Op::Query { slot, running } => {
            let (tag, hk) = (tag_of(slots, slot), hk_of(slots, slot));
            begin(c, i, if running { OpK::QueryRunning } else { OpK::QueryStopped }, hk, Path::NA, tag, 0, slot, 0);
            let r = match slots.get(slot as usize).map(|s| &s.h) {
                Some(H::Addr(a)) => Res::Bool(if running { a.running() } else { a.stopped() }),
                Some(H::Weak(a)) if !running => Res::Bool(a.stopped()),
                _ => Res::Skipped,
            };
            end(c, i, r);
        }
        Op::Rendezvous { id, parties, jitter } => {
            begin(c, i, OpK::Rendezvous, Hk::None, Path::NA, u32::MAX, 0, id as u16, jitter as u64);
            #[cfg(all(feature = "mt", not(feature = "l1")))]
            {
                let cell = &env.rendezvous[id as usize % 8];
                cell.fetch_add(1, Ordering::SeqCst);
                let t0 = std::time::Instant::now();
                while cell.load(Ordering::SeqCst) < parties as u32 && t0.elapsed() < std::time::Duration::from_millis(20) {
                    std::hint::spin_loop();
                }
                let t1 = std::time::Instant::now();
                let d = std::time::Duration::from_nanos(jitter as u64 * 10);
                while t1.elapsed() < d {
                    std::hint::spin_loop();
                }
            }
            #[cfg(not(all(feature = "mt", not(feature = "l1"))))]
            {
                let _ = (parties, &env.rendezvous);
                rt::yield_now().await;
            }
            // (no end-of-op log entry before the racing operation: the log lock would serialise the racers)
            end(c, i, Res::Ok);
        }
        Op::Yield => {
            begin(c, i, OpK::Yield, Hk::None, Path::NA, u32::MAX, 0, 0, 0);
            rt::yield_now().await;
            end(c, i, Res::Ok);
        }
        Op::Sleep(d) => {
            begin(c, i, OpK::Sleep, Hk::None, Path::NA, u32::MAX, 0, 0, d);
            rt::sleep(d).await;
            end(c, i, Res::Ok);
        }
        Op::AwaitLog { tag, what, count } | Op::AwaitLogSync { tag, what, count } => {
            let sync = matches!(op, Op::AwaitLogSync { .. });
            begin(c, i, if sync { OpK::AwaitLogSync } else { OpK::AwaitLog }, Hk::None, Path::NA, tag, 0, 0, what as u64);
            let mut ok = false;
            for _ in 0..1500 {
                let n = log::count(|e| match (&e.k, what) {
                    (K::CbOut { cb: crate::log::Cb::Stopped, tag: t, .. }, 0) => *t == tag,
                    (K::HIn { mk: crate::log::Mk::Tick, tag: t, .. }, 1) => *t == tag,
                    (K::Exec { actor_tag, .. }, 2) => *actor_tag == tag,
                    (K::CbOut { cb: crate::log::Cb::Started, tag: t, .. }, 3) => *t == tag,
                    _ => false,
                });
                if n >= count as usize {
                    ok = true;
                    break;
                }
                if sync {
                    std::thread::sleep(std::time::Duration::from_millis(2));
                } else {
                    rt::sleep(2).await;
                }
            }
            end(c, i, if ok { Res::Ok } else { Res::Err("timeout") });
        }
        Op::SpawnActor { decl } => {
            let d = env.prog.actors[decl as usize].clone();
            begin(c, i, OpK::SpawnActor, Hk::None, Path::NA, d.tag, 0, 0, decl as u64);
            let sp = spawn_decl(&d);
            if let Some(a) = &sp.addr {
                env.reaper.lock().unwrap_or_else(|e| e.into_inner()).push((d.tag, a.downgrade()));
            }
            let mut first = u16::MAX;
            let obj = sp.obj;
            if let Some(o) = sp.owning {
                first = push(slots, Slot::mk(H::Owning(o), d.tag, c));
                drop(sp.addr);
            } else if let Some(a) = sp.addr {
                first = push(slots, Slot::mk(H::Addr(a), d.tag, c));
            } else {
                push(slots, Slot::empty());
            }
            if first != u16::MAX {
                end(c, i, Res::Inst { obj, actor: u32::MAX, slot: first });
            } else {
                end(c, i, Res::Handle { slot: first, some: false });
            }
        }
        Op::SpawnRegister { decl } => {
            let d = env.prog.actors[decl as usize].clone();
            begin(c, i, OpK::SpawnRegister, Hk::None, Path::NA, d.tag, 0, 0, d.k as u64);
            let (obj, r) = spawn_register(&d).await;
            let res = match r {
                Ok((me, prev)) => {
                    env.reaper.lock().unwrap_or_else(|e| e.into_inner()).push((d.tag, me.downgrade()));
                    let s = push(slots, Slot::mk(H::Addr(me), d.tag, c));
                    let ps = push_prev(slots, prev, d.k, c);
                    log::log(K::Note(format!("spawn_register obj {obj} slot {s}")));
                    Res::Prev { ok: true, err: None, prev: ps }
                }
                Err(e) => {
                    push(slots, Slot::empty());
                    push(slots, Slot::empty());
                    Res::Prev { ok: false, err: Some(err_name(&e)), prev: None }
                }
            };
            end(c, i, res);
        }
        Op::Fork { ops, moved } => {
            let nc = env.next_client.fetch_add(1, Ordering::SeqCst);
            begin(c, i, OpK::Fork, Hk::None, Path::NA, u32::MAX, 0, 0, nc as u64);
            let mut table: Vec<Slot> = (0..slots.len()).map(|_| Slot::empty()).collect();
            for m in moved {
                if let Some(s) = slots.get_mut(m as usize) {
                    let mut s = std::mem::replace(s, Slot::empty());
                    s.c = nc;
                    table[m as usize] = s;
                }
            }
            env.clients_started.fetch_add(1, Ordering::SeqCst);
            crate::scenario::spawn_client(run_client(Arc::clone(env), nc, ops, table));
            end(c, i, Res::Ok);
        }
        Op::FromRegistryCancel { k, polls } => {
            let tag = 9000 + k as u32;
            begin(c, i, OpK::FromRegistry, Hk::None, Path::NA, tag, 0, 0, k as u64);
            let mut f: LocalBoxFuture<'static, Box<dyn DynAddr>> = match k {
                1 => Box::pin(async { Box::new(Probe::<1>::from_registry().await) as Box<dyn DynAddr> }),
                _ => Box::pin(async { Box::new(Probe::<2>::from_registry().await) as Box<dyn DynAddr> }),
            };
            let mut got = None;
            for _ in 0..polls {
                match futures::poll!(&mut f) {
                    std::task::Poll::Ready(a) => {
                        got = Some(a);
                        break;
                    }
                    std::task::Poll::Pending => rt::yield_now().await,
                }
            }
            let r = match got {
                Some(a) => {
                    env.reaper.lock().unwrap_or_else(|e| e.into_inner()).push((tag, a.downgrade()));
                    let s = push(slots, Slot::mk(H::Addr(a), tag, c));
                    Res::Handle { slot: s, some: true }
                }
                None => {
                    drop(f);
                    push(slots, Slot::empty());
                    Res::Cancelled
                }
            };
            end(c, i, r);
        }
        Op::FromRegistry { k } | Op::Setup { k } | Op::TryFromRegistry { k } => {
            let opk = match op {
                Op::FromRegistry { .. } => OpK::FromRegistry,
                Op::Setup { .. } => OpK::Setup,
                _ => OpK::TryFromRegistry,
            };
            let tag = 9000 + k as u32;
            begin(c, i, opk, Hk::None, Path::NA, tag, 0, 0, k as u64);
            let a: Option<Option<Box<dyn DynAddr>>> = match (opk, k) {
                (OpK::FromRegistry, 1) => Some(Some(Box::new(Probe::<1>::from_registry().await))),
                (OpK::FromRegistry, _) => Some(Some(Box::new(Probe::<2>::from_registry().await))),
                (OpK::Setup, 1) => {
                    let _ = Probe::<1>::setup().await;
                    None
                }
                (OpK::Setup, _) => {
                    let _ = Probe::<2>::setup().await;
                    None
                }
                (_, 1) => Some(Probe::<1>::try_from_registry().map(|a| Box::new(a) as Box<dyn DynAddr>)),
                (_, _) => Some(Probe::<2>::try_from_registry().map(|a| Box::new(a) as Box<dyn DynAddr>)),
            };
            let r = match a {
                None => Res::Ok,
                Some(None) => {
                    push(slots, Slot::empty());
                    Res::NoneVal
                }
                Some(Some(a)) => {
                    env.reaper.lock().unwrap_or_else(|e| e.into_inner()).push((tag, a.downgrade()));
                    let s = push(slots, Slot::mk(H::Addr(a), tag, c));
                    Res::Handle { slot: s, some: true }
                }
            };
            end(c, i, r);
        }
        Op::Register { slot } | Op::Replace { slot } => {
            let is_reg = matches!(op, Op::Register { .. });
            let (tag, hk) = (tag_of(slots, slot), hk_of(slots, slot));
            let k = match slots.get(slot as usize).map(|s| &s.h) {
                Some(H::Addr(a)) => a.k(),
                _ => 0,
            };
            begin(c, i, if is_reg { OpK::Register } else { OpK::Replace }, hk, Path::NA, tag, 0, slot, k as u64);
            let r = if hk == Hk::Addr && k != 0 {
                let H::Addr(a) = slots[slot as usize].take() else { unreachable!() };
                // registry holds a clone from now on: log before the call (conservative for "kept alive")
                if is_reg {
                    match a.register().await {
                        Ok((me, prev)) => {
                            slots[slot as usize].h = H::Addr(me);
                            let ps = push_prev(slots, prev, k, c);
                            Res::Prev { ok: true, err: None, prev: ps }
                        }
                        Err(e) => {
                            // the address was consumed by the failed register
                            log::log(K::Ref { tag, hk: Hk::Addr, delta: -1, c });
                            log::log(K::RefGone { tag, hk: Hk::Addr, c });
                            push(slots, Slot::empty());
                            Res::Prev { ok: false, err: Some(err_name(&e)), prev: None }
                        }
                    }
                } else {
                    // replace consumes the address; the registry now holds it
                    let me = a.clone_box();
                    let prev = a.replace().await;
                    slots[slot as usize].h = H::Addr(me);
                    let ps = push_prev(slots, prev, k, c);
                    Res::Prev { ok: true, err: None, prev: ps }
                }
            } else {
                push(slots, Slot::empty());
                Res::Skipped
            };
            end(c, i, r);
        }
        Op::Unregister { k } => {
            let tag = 9000 + k as u32;
            begin(c, i, OpK::Unregister, Hk::None, Path::NA, tag, 0, 0, k as u64);
            let prev: Option<Box<dyn DynAddr>> = match k {
                1 => hannibal::Addr::<Probe<1>>::unregister().await.map(|a| Box::new(a) as Box<dyn DynAddr>),
                _ => hannibal::Addr::<Probe<2>>::unregister().await.map(|a| Box::new(a) as Box<dyn DynAddr>),
            };
            let ps = push_prev(slots, prev, k, c);
            end(c, i, Res::Prev { ok: true, err: None, prev: ps });
        }
        Op::AlreadyRunning { k } => {
            let tag = 9000 + k as u32;
            begin(c, i, OpK::AlreadyRunning, Hk::None, Path::NA, tag, 0, 0, k as u64);
            let r = match k {
                1 => Probe::<1>::already_running().await,
                _ => Probe::<2>::already_running().await,
            };
            end(c, i, Res::OptBool(r));
        }
        Op::Publish { topic, via } => {
            let uid = log::uid();
            let opk = match via {
                Via::Static => OpK::Publish,
                Via::Addr => OpK::PublishAddr,
                Via::Try => OpK::TryPublish,
            };
            begin(c, i, opk, Hk::None, Path::Waiting, u32::MAX, uid, 0, topic as u64);
            let r = match (via, topic) {
                (Via::Static, 0) => res_of(hannibal::Broker::publish(Topic::<0> { uid }).await),
                (Via::Static, _) => res_of(hannibal::Broker::publish(Topic::<1> { uid }).await),
                (Via::Addr, 0) => res_of(hannibal::Broker::<Topic<0>>::from_registry().await.publish(Topic::<0> { uid }).await),
                (Via::Addr, _) => res_of(hannibal::Broker::<Topic<1>>::from_registry().await.publish(Topic::<1> { uid }).await),
                (Via::Try, 0) => match hannibal::Broker::try_publish(Topic::<0> { uid }).await {
                    Some(r) => res_of(r),
                    None => Res::NoneVal,
                },
                (Via::Try, _) => match hannibal::Broker::try_publish(Topic::<1> { uid }).await {
                    Some(r) => res_of(r),
                    None => Res::NoneVal,
                },
            };
            end(c, i, r);
        }
        Op::SubscribeExt { slot, topic } | Op::Unsubscribe { slot, topic } => {
            let sub = matches!(op, Op::SubscribeExt { .. });
            let (tag, hk) = (tag_of(slots, slot), hk_of(slots, slot));
            begin(c, i, if sub { OpK::Subscribe } else { OpK::Unsubscribe }, hk, Path::Waiting, tag, 0, slot, topic as u64);
            let f = match slots.get(slot as usize).map(|s| &s.h) {
                Some(H::Addr(a)) => Some(if sub { a.subscribe(topic) } else { a.unsubscribe(topic) }),
                Some(H::Owning(o)) => {
                    let a = o.to_addr();
                    Some(if sub { a.subscribe(topic) } else { a.unsubscribe(topic) })
                }
                _ => None,
            };
            let r = match f {
                Some(f) => res_of(f.await),
                None => Res::Skipped,
            };
            end(c, i, r);
        }
        Op::BrokerPing { topic } => {
            begin(c, i, OpK::BrokerPing, Hk::None, Path::Forcing, u32::MAX, 0, 0, topic as u64);
            let r = match topic {
                0 => res_of(hannibal::Broker::<Topic<0>>::from_registry().await.ping().await),
                _ => res_of(hannibal::Broker::<Topic<1>>::from_registry().await.ping().await),
            };
            end(c, i, r);
        }
    }
}
