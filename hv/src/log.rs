//! Global append-only event log with a logical clock.  Monitor state is thread-safe: the stamp
//! is taken under the same lock that appends the event, so log order == stamp order.
use std::sync::Mutex;
use std::sync::atomic::{AtomicU64, Ordering};

pub type Uid = u64;

#[derive(Clone, Copy, Debug, PartialEq, Eq, Hash, PartialOrd, Ord)]
pub enum Cb {
    Started,
    Stopped,
    Finished,
}

/// message kind as seen by the handler
#[derive(Clone, Copy, Debug, PartialEq, Eq, Hash, PartialOrd, Ord)]
pub enum Mk {
    Fire,
    Ask,
    Tick,
    Topic(u8),
    Bcast(u8),
    Unit,
    Item,
}

/// handle kind used by a client op
#[derive(Clone, Copy, Debug, PartialEq, Eq, Hash, PartialOrd, Ord)]
pub enum Hk {
    Addr,
    Owning,
    Weak,
    Sender,
    Caller,
    WeakSender,
    WeakCaller,
    Join,
    /// a parked `Sender::send` future: keeps the mailbox open (it owns a clone of the channel sender) but is no handle
    Fut,
    /// an `OwningAddr::consume()` future that has not been polled yet: it owns the OwningAddr, nothing else happened
    OwnFut,
    None,
}

impl Hk {
    pub fn strong(self) -> bool {
        matches!(self, Hk::Addr | Hk::Owning | Hk::Sender | Hk::Caller | Hk::Fut | Hk::OwnFut)
    }
}

/// which submission path an op uses
#[derive(Clone, Copy, Debug, PartialEq, Eq, Hash, PartialOrd, Ord)]
pub enum Path {
    Waiting,
    Forcing,
    NA,
}

#[derive(Clone, Copy, Debug, PartialEq, Eq, Hash, PartialOrd, Ord)]
pub enum OpK {
    Send,
    Call,
    Ping,
    ForceSend,
    Stop,
    Halt,
    Consume,
    ConsumeSync,
    Restart,
    Clone,
    Downgrade,
    Upgrade,
    ToSender,
    ToCaller,
    ToWeakSender,
    ToWeakCaller,
    Detach,
    ToAddr,
    Drop,
    Await,
    AwaitRef,
    Join,
    JoinPark,
    AwaitParked,
    Rendezvous,
    ConsumePark,
    DropPanicking,
    QueryStopped,
    QueryRunning,
    Yield,
    Sleep,
    SpawnActor,
    SpawnRegister,
    Burst,
    Fork,
    AwaitLog,
    AwaitLogSync,
    // registry
    FromRegistry,
    Setup,
    Register,
    Replace,
    Unregister,
    TryFromRegistry,
    AlreadyRunning,
    // broker
    Publish,
    PublishAddr,
    TryPublish,
    Subscribe,
    Unsubscribe,
    BrokerPing,
    Barrier,
}

/// result of a client op
#[derive(Clone, Debug, PartialEq, Eq, Hash)]
pub enum Res {
    Ok,
    Err(&'static str),
    /// reply of an Ask
    Reply { msg: Uid, actor: u32, obj: Uid, seq: u64, fold: u64 },
    /// a new handle was stored (slot); `some` = false if the conversion yielded None
    Handle { slot: u16, some: bool },
    /// join / consume result
    Joined(Option<JoinVal>),
    Bool(bool),
    OptBool(Option<bool>),
    /// registry lookup: object uid answering (via an Ask on the returned address)
    Inst { obj: Uid, actor: u32, slot: u16 },
    /// register/replace/unregister: previous entry (obj uid) if any
    Prev { ok: bool, err: Option<&'static str>, prev: Option<Uid> },
    /// op dropped by the client after k polls (stays open: may or may not take effect)
    Cancelled,
    /// slot was empty / wrong kind: op not executed
    Skipped,
    /// the op's future panicked
    Panicked(String),
    NoneVal,
    /// number of successful submissions of a burst
    Count(u64),
}

#[derive(Clone, Debug, PartialEq, Eq, Hash)]
pub struct JoinVal {
    pub obj: Uid,
    pub seq: u64,
    pub fold: u64,
    pub handled: Vec<Uid>,
}

#[derive(Clone, Debug, PartialEq, Eq)]
pub enum K {
    /// client op begins. `actor` = harness tag of the target actor (u32::MAX if none)
    OpB { c: u16, i: u16, op: OpK, hk: Hk, path: Path, tag: u32, msg: Uid, slot: u16, arg: u64 },
    OpE { c: u16, i: u16, res: Res },
    /// number of polls that returned Pending for op (c,i) (C12.R3)
    OpPolls { c: u16, i: u16, pending: u32 },
    CbIn { cb: Cb, actor: u32, obj: Uid, tag: u32 },
    CbOut { cb: Cb, actor: u32, obj: Uid, tag: u32, ok: bool },
    HIn { mk: Mk, msg: Uid, actor: u32, obj: Uid, tag: u32 },
    /// state after the invocation
    HOut { mk: Mk, msg: Uid, actor: u32, obj: Uid, seq: u64, fold: u64 },
    HAbandon { mk: Mk, msg: Uid, actor: u32, obj: Uid },
    /// a scripted effect inside a handler/callback (`step` = index in the script)
    Effect { msg: Uid, actor: u32, step: u16, what: &'static str, arg: u64, ok: bool },
    /// delayed_exec body ran
    Exec { id: Uid, actor_tag: u32 },
    /// a timer produced its message / ran its body (logged by the message constructor, i.e. at firing time)
    TimerFire { id: Uid },
    /// timer registered from a handler/callback of `actor`
    TimerReg { id: Uid, actor: u32, tag: u32, kind: &'static str, dur: u64 },
    /// strong-handle reference model (interpreter's view): delta for actor `tag`
    Ref { tag: u32, hk: Hk, delta: i8, c: u16 },
    /// the handle whose release was announced by the preceding `Ref{delta:-1}` is now really gone
    RefGone { tag: u32, hk: Hk, c: u16 },
    /// harness actor value dropped
    ObjDrop { obj: Uid, tag: u32 },
    /// a harness actor value was created through `Default::default()` (inside the library: an on-demand service
    /// instance, or the fresh value of a recreate-from-default restart); tag = 9000 + type
    ObjNew { obj: Uid, tag: u32 },
    /// stream probe: item `n` yielded by harness stream `sid`
    StreamYield { sid: Uid, item: Uid },
    StreamEnd { sid: Uid },
    StreamDrop { sid: Uid },
    /// both sources ready in one loop poll (tie-break observation)
    Quiescent,
    TaskSpawn { task: u32, parent: u32, kind: &'static str },
    TaskEnd { task: u32, how: &'static str },
    ClientDone { c: u16 },
    Phase(&'static str),
    Fault { what: &'static str, arg: u64 },
    Note(String),
}

#[derive(Clone, Debug)]
pub struct Ev {
    pub stamp: u64,
    /// virtual time (L1) or ns since scenario start (L2)
    pub vt: u64,
    /// task being polled when the event was logged (u32::MAX outside)
    pub task: u32,
    pub k: K,
}

static LOG: Mutex<Vec<Ev>> = Mutex::new(Vec::new());
static UID: AtomicU64 = AtomicU64::new(1);

pub fn reset() {
    LOG.lock().unwrap_or_else(|e| e.into_inner()).clear();
    UID.store(1, Ordering::SeqCst);
}

pub fn uid() -> Uid {
    UID.fetch_add(1, Ordering::SeqCst)
}

/// progress counters for the L2 monitor: client-boundary events, and all events except timer ticks
pub static CLIENT_EVENTS: AtomicU64 = AtomicU64::new(0);
pub static NONTICK_EVENTS: AtomicU64 = AtomicU64::new(0);

pub fn log(k: K) -> u64 {
    match &k {
        K::OpB { .. } | K::OpE { .. } | K::ClientDone { .. } => {
            CLIENT_EVENTS.fetch_add(1, Ordering::Relaxed);
            NONTICK_EVENTS.fetch_add(1, Ordering::Relaxed);
        }
        K::HIn { mk: Mk::Tick, .. } | K::HOut { mk: Mk::Tick, .. } | K::Exec { .. } | K::TimerFire { .. } => {}
        _ => {
            NONTICK_EVENTS.fetch_add(1, Ordering::Relaxed);
        }
    }
    let (vt, task) = crate::rt::now_and_task();
    let mut g = LOG.lock().unwrap_or_else(|e| e.into_inner());
    let stamp = g.len() as u64;
    g.push(Ev { stamp, vt, task, k });
    stamp
}

pub fn take() -> Vec<Ev> {
    std::mem::take(&mut *LOG.lock().unwrap_or_else(|e| e.into_inner()))
}

pub fn count(f: impl Fn(&Ev) -> bool) -> usize {
    LOG.lock().unwrap_or_else(|e| e.into_inner()).iter().filter(|e| f(e)).count()
}

pub fn with<R>(f: impl FnOnce(&[Ev]) -> R) -> R {
    f(&LOG.lock().unwrap_or_else(|e| e.into_inner()))
}

pub fn len() -> usize {
    LOG.lock().unwrap_or_else(|e| e.into_inner()).len()
}

pub fn fmt_ev(e: &Ev) -> String {
    format!("#{} t={} task={} {:?}", e.stamp, e.vt, if e.task == u32::MAX { -1 } else { e.task as i64 }, e.k)
}

/// FNV-1a, used for fold values and trace hashes
pub fn mix(h: u64, x: u64) -> u64 {
    let mut h = h ^ 0xcbf29ce484222325;
    for b in x.to_le_bytes() {
        h ^= b as u64;
        h = h.wrapping_mul(0x100000001b3);
    }
    h
}
