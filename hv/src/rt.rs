//! Runtime adapter: the harness actors and the client interpreter only use these functions.
//! L1 (feature `l1`): the vexec of the current thread.  L2 (feature `mt`): real tokio.
use std::future::Future;
use std::pin::Pin;

pub type SendFut = Pin<Box<dyn Future<Output = ()> + Send + 'static>>;

#[cfg(feature = "l1")]
mod imp {
    use super::*;
    use crate::vexec;

    pub fn now_and_task() -> (u64, u32) {
        match vexec::current() {
            Some(sh) => (sh.now(), sh.cur()),
            None => (0, u32::MAX),
        }
    }
    /// sleep for `units` virtual units; the returned future is Send and holds no executor borrow
    pub fn sleep(units: u64) -> SendFut {
        match vexec::current() {
            Some(sh) => Box::pin(sh.sleep(units * vexec::UNIT)),
            None => Box::pin(async {}),
        }
    }
    pub fn yield_now() -> SendFut {
        match vexec::current() {
            Some(sh) => Box::pin(sh.yield_now()),
            None => Box::pin(async {}),
        }
    }
}

#[cfg(all(feature = "mt", not(feature = "l1")))]
mod imp {
    //! L2: real multi-threaded tokio, hooks off
    use super::*;
    use std::sync::Mutex;
    use std::time::Instant;

    static START: Mutex<Option<Instant>> = Mutex::new(None);
    pub fn reset_clock() {
        *START.lock().unwrap_or_else(|e| e.into_inner()) = Some(Instant::now());
    }
    pub fn now_and_task() -> (u64, u32) {
        let t = START.lock().unwrap_or_else(|e| e.into_inner()).map(|s| s.elapsed().as_nanos() as u64).unwrap_or(0);
        let task = tokio::task::try_id().map(|i| i.to_string().parse::<u64>().unwrap_or(0) as u32).unwrap_or(u32::MAX);
        (t, task)
    }
    /// one unit = 200 us of real time in L2
    pub const UNIT_US: u64 = 200;
    pub fn sleep(units: u64) -> SendFut {
        Box::pin(tokio::time::sleep(std::time::Duration::from_micros(units * UNIT_US)))
    }
    pub fn yield_now() -> SendFut {
        Box::pin(tokio::task::yield_now())
    }
}

#[cfg(all(not(feature = "l1"), not(feature = "mt")))]
mod imp {
    //! L3 xrt: real runtime of whichever hannibal runtime feature is enabled
    use super::*;
    use std::sync::Mutex;
    use std::time::{Duration, Instant};

    static START: Mutex<Option<Instant>> = Mutex::new(None);
    pub fn reset_clock() {
        *START.lock().unwrap() = Some(Instant::now());
    }
    pub fn now_and_task() -> (u64, u32) {
        let t = START.lock().unwrap().map(|s| s.elapsed().as_nanos() as u64).unwrap_or(0);
        (t, u32::MAX)
    }
    /// one unit = 1 ms of real time
    pub const UNIT_US: u64 = 1000;
    pub fn sleep(units: u64) -> SendFut {
        let d = Duration::from_micros(units * UNIT_US);
        #[cfg(feature = "rt_tokio")]
        {
            Box::pin(tokio::time::sleep(d))
        }
        #[cfg(feature = "rt_async")]
        {
            Box::pin(async_std::task::sleep(d))
        }
        #[cfg(feature = "rt_smol")]
        {
            Box::pin(async move {
                smol::Timer::after(d).await;
            })
        }
    }
    pub fn yield_now() -> SendFut {
        #[cfg(feature = "rt_tokio")]
        {
            Box::pin(tokio::task::yield_now())
        }
        #[cfg(feature = "rt_async")]
        {
            Box::pin(async_std::task::yield_now())
        }
        #[cfg(feature = "rt_smol")]
        {
            Box::pin(smol::future::yield_now())
        }
    }
    /// the library's own runtime entry point (what `#[hannibal::main]` expands to), for every runtime feature
    pub fn block_on<F: Future>(f: F) -> F::Output {
        hannibal::runtime::block_on(f)
    }
}

pub use imp::*;

/// duration of `units` as hannibal sees it
pub fn dur(units: u64) -> std::time::Duration {
    #[cfg(feature = "l1")]
    {
        std::time::Duration::from_nanos(units * crate::vexec::UNIT)
    }
    #[cfg(not(feature = "l1"))]
    {
        std::time::Duration::from_micros(units * UNIT_US)
    }
}

/// nanoseconds per unit as seen in event timestamps
#[cfg(feature = "l1")]
pub const UNIT_NS: u64 = crate::vexec::UNIT;
#[cfg(not(feature = "l1"))]
pub const UNIT_NS: u64 = UNIT_US * 1000;
