//! Profile registry (name -> generator).
use crate::genp;
use crate::runner::GenFn;

pub fn profile(name: &str) -> Option<GenFn> {
    Some(match name {
        "mailbox" => genp::mailbox,
        "lifecycle" => genp::lifecycle,
        "handles" => genp::handles,
        "backpressure" => genp::backpressure,
        "owning" => genp::owning,
        "timers" => genp::timers,
        "timeout" => genp::timeout,
        "restart" => genp::restart,
        "stream" => genp::stream,
        "liveness" => genp::liveness,
        "kinds" => genp::kinds,
        "tree" => genp::tree,
        "faults" => genp::faults,
        "registry" => genp::registry,
        "broker" => genp::broker,
        "burst" => genp::burst,
        "svckeep" => genp::svckeep,
        "mix" => genp::mix,
        "svcfaults" => genp::svcfaults,
        "droprace" => genp::droprace,
        "timeout0" => genp::timeout0,
        "stoprace" => genp::stoprace,
        "bigburst" => genp::bigburst,
        "joinrace" => genp::joinrace,
        "svcrestart" => genp::svcrestart,
        _ => return None,
    })
}
