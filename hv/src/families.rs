//! Profile registry (name -> generator).
use crate::genp;
use crate::runner::GenFn;

pub fn profile(name: &str) -> Option<GenFn> {
    Some(match name {
        "mailbox" => genp::mailbox,
        _ => return None,
    })
}
