//! Trace index shared by all oracles.
use std::collections::{BTreeMap, HashMap};

use crate::log::*;

#[derive(Clone, Debug)]
pub struct OpRec {
    pub c: u16,
    pub i: u16,
    pub b: u64,
    pub e: Option<u64>,
    pub bt: u64,
    pub et: Option<u64>,
    pub op: OpK,
    pub hk: Hk,
    pub path: Path,
    pub tag: u32,
    pub msg: Uid,
    pub slot: u16,
    pub arg: u64,
    pub res: Option<Res>,
    pub pending: Option<u32>,
}

impl OpRec {
    pub fn ok(&self) -> bool {
        matches!(self.res, Some(Res::Ok) | Some(Res::Reply { .. }))
    }
    pub fn is_err(&self) -> bool {
        matches!(self.res, Some(Res::Err(_)))
    }
    pub fn executed(&self) -> bool {
        !matches!(self.res, Some(Res::Skipped))
    }
    pub fn is_submit(&self) -> bool {
        matches!(self.op, OpK::Send | OpK::Call | OpK::Ping | OpK::ForceSend)
    }
}

/// one handler invocation
#[derive(Clone, Debug)]
pub struct Inv {
    pub mk: Mk,
    pub msg: Uid,
    pub actor: u32,
    pub obj: Uid,
    pub tag: u32,
    pub i: u64,
    pub it: u64,
    /// Some((stamp, vt, seq, fold)) on completion
    pub out: Option<(u64, u64, u64, u64)>,
    pub abandoned: Option<(u64, u64)>,
}

#[derive(Clone, Debug)]
pub struct CbRec {
    pub cb: Cb,
    pub actor: u32,
    pub obj: Uid,
    pub tag: u32,
    pub i: u64,
    pub it: u64,
    pub o: Option<(u64, u64, bool)>,
}

/// item of an actor's timeline
#[derive(Clone, Copy, Debug, PartialEq, Eq)]
pub enum TL {
    Cb(usize),
    Inv(usize),
}

#[derive(Clone, Debug, Default)]
pub struct ActorRec {
    pub task: u32,
    pub tag: u32,
    pub spawn: u64,
    pub end: Option<(u64, u64, &'static str)>,
    pub timeline: Vec<TL>,
}

pub struct Index<'a> {
    pub ev: &'a [Ev],
    pub ops: Vec<OpRec>,
    pub op_at: HashMap<(u16, u16), usize>,
    pub invs: Vec<Inv>,
    pub cbs: Vec<CbRec>,
    /// msg uid -> invocation indices (Tick uids repeat)
    pub inv_of: HashMap<Uid, Vec<usize>>,
    /// actor task -> record
    pub actors: BTreeMap<u32, ActorRec>,
    /// tag -> actor tasks
    pub tasks_of_tag: BTreeMap<u32, Vec<u32>>,
    pub quiescent: Vec<u64>,
    pub phases: Vec<(u64, &'static str)>,
    pub faults: Vec<(u64, &'static str, u64)>,
    pub notes: Vec<(u64, String)>,
    pub task_end: HashMap<u32, (u64, u64, &'static str)>,
    pub task_kind: HashMap<u32, (&'static str, u32, u64)>,
}

impl<'a> Index<'a> {
    pub fn build(ev: &'a [Ev]) -> Index<'a> {
        let mut ix = Index {
            ev,
            ops: vec![],
            op_at: HashMap::new(),
            invs: vec![],
            cbs: vec![],
            inv_of: HashMap::new(),
            actors: BTreeMap::new(),
            tasks_of_tag: BTreeMap::new(),
            quiescent: vec![],
            phases: vec![],
            faults: vec![],
            notes: vec![],
            task_end: HashMap::new(),
            task_kind: HashMap::new(),
        };
        let mut open_inv: HashMap<(u32, Uid), usize> = HashMap::new();
        let mut open_cb: HashMap<(u32, Cb), usize> = HashMap::new();
        for e in ev {
            match &e.k {
                K::OpB { c, i, op, hk, path, tag, msg, slot, arg } => {
                    ix.op_at.insert((*c, *i), ix.ops.len());
                    ix.ops.push(OpRec {
                        c: *c,
                        i: *i,
                        b: e.stamp,
                        e: None,
                        bt: e.vt,
                        et: None,
                        op: *op,
                        hk: *hk,
                        path: *path,
                        tag: *tag,
                        msg: *msg,
                        slot: *slot,
                        arg: *arg,
                        res: None,
                        pending: None,
                    });
                }
                K::OpE { c, i, res } => {
                    if let Some(&j) = ix.op_at.get(&(*c, *i)) {
                        ix.ops[j].e = Some(e.stamp);
                        ix.ops[j].et = Some(e.vt);
                        ix.ops[j].res = Some(res.clone());
                    }
                }
                K::OpPolls { c, i, pending } => {
                    if let Some(&j) = ix.op_at.get(&(*c, *i)) {
                        ix.ops[j].pending = Some(*pending);
                    }
                }
                K::CbIn { cb, actor, obj, tag } => {
                    let j = ix.cbs.len();
                    ix.cbs.push(CbRec { cb: *cb, actor: *actor, obj: *obj, tag: *tag, i: e.stamp, it: e.vt, o: None });
                    open_cb.insert((*actor, *cb), j);
                    let a = ix.actors.entry(*actor).or_insert_with(|| ActorRec { task: *actor, tag: *tag, ..Default::default() });
                    a.tag = *tag;
                    a.timeline.push(TL::Cb(j));
                    let v = ix.tasks_of_tag.entry(*tag).or_default();
                    if !v.contains(actor) {
                        v.push(*actor);
                    }
                }
                K::CbOut { cb, actor, ok, .. } => {
                    if let Some(j) = open_cb.remove(&(*actor, *cb)) {
                        ix.cbs[j].o = Some((e.stamp, e.vt, *ok));
                    }
                }
                K::HIn { mk, msg, actor, obj, tag } => {
                    let j = ix.invs.len();
                    ix.invs.push(Inv { mk: *mk, msg: *msg, actor: *actor, obj: *obj, tag: *tag, i: e.stamp, it: e.vt, out: None, abandoned: None });
                    open_inv.insert((*actor, *msg), j);
                    ix.inv_of.entry(*msg).or_default().push(j);
                    let a = ix.actors.entry(*actor).or_insert_with(|| ActorRec { task: *actor, tag: *tag, ..Default::default() });
                    a.timeline.push(TL::Inv(j));
                }
                K::HOut { msg, actor, seq, fold, .. } => {
                    if let Some(j) = open_inv.remove(&(*actor, *msg)) {
                        ix.invs[j].out = Some((e.stamp, e.vt, *seq, *fold));
                    }
                }
                K::HAbandon { msg, actor, .. } => {
                    if let Some(j) = open_inv.remove(&(*actor, *msg)) {
                        ix.invs[j].abandoned = Some((e.stamp, e.vt));
                    }
                }
                K::Quiescent => ix.quiescent.push(e.stamp),
                K::Phase(p) => ix.phases.push((e.stamp, p)),
                K::Fault { what, arg } => ix.faults.push((e.stamp, what, *arg)),
                K::Note(s) => ix.notes.push((e.stamp, s.clone())),
                K::TaskSpawn { task, parent, kind } => {
                    ix.task_kind.insert(*task, (kind, *parent, e.stamp));
                }
                K::TaskEnd { task, how } => {
                    ix.task_end.insert(*task, (e.stamp, e.vt, how));
                }
                _ => {}
            }
        }
        let ends: Vec<(u32, (u64, u64, &'static str))> = ix.task_end.iter().map(|(k, v)| (*k, *v)).collect();
        for (t, v) in ends {
            if let Some(a) = ix.actors.get_mut(&t) {
                a.end = Some(v);
            }
        }
        for (t, (_, _, s)) in ix.task_kind.iter() {
            if let Some(a) = ix.actors.get_mut(t) {
                a.spawn = *s;
            }
        }
        ix
    }

    pub fn phase(&self, name: &str) -> Option<u64> {
        self.phases.iter().find(|(_, p)| *p == name).map(|(s, _)| *s)
    }

    pub fn op(&self, c: u16, i: u16) -> Option<&OpRec> {
        self.op_at.get(&(c, i)).map(|j| &self.ops[*j])
    }

    /// the (single) actor task of a tag, if unique
    pub fn task_of(&self, tag: u32) -> Option<u32> {
        if tag >= 9000 {
            // a handle obtained from the registry may address any instance of that service type
            return None;
        }
        match self.tasks_of_tag.get(&tag) {
            Some(v) if v.len() == 1 => Some(v[0]),
            _ => None,
        }
    }

    /// stamp of the `<what>.begin` marker logged by the same actor right before the call whose result `e` records
    pub fn effect_begin(&self, stamp: u64) -> u64 {
        let e = &self.ev[stamp as usize];
        let K::Effect { msg, actor, step, what, .. } = &e.k else { return stamp };
        for x in self.ev[..stamp as usize].iter().rev() {
            if let K::Effect { msg: m, actor: a, step: s, what: w, .. } = &x.k {
                if a == actor && m == msg && s == step {
                    if w.strip_suffix(".begin") == Some(*what) {
                        return x.stamp;
                    }
                    break;
                }
            }
            if x.task == e.task && !matches!(x.k, K::Effect { .. }) {
                // something else from that task in between: not the marker of this call
                continue;
            }
        }
        stamp
    }

    pub fn has_fault(&self) -> bool {
        !self.faults.is_empty()
    }

    /// stamp of the first accepted stop-like request targeting `tag` (client ops and ctx.stop effects)
    pub fn stamp_str(&self, stamps: &[u64]) -> String {
        stamps.iter().map(|s| format!("#{s}")).collect::<Vec<_>>().join(",")
    }
}
