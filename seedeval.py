#!/usr/bin/env python3
"""Evaluate a seeded defect (mutant) against the checks.

  ./seedeval.py <name> <patch.diff> <demo.rs> <meta.json> [--checks C01,C02,...] [--tier quick]

1. confirms in a scratch worktree (outside /repo and /verif) that the demo passes without the patch, that the
   patch applies and compiles, that the pinned lib tests still pass with it, and that the demo fails with it;
2. applies the patch to a second scratch worktree, points the checks at it (VERIF_REPO), runs the requested checks
   (default: all), records which of them report a VIOLATION, and removes the worktree; /repo itself is never touched;
3. stores patch, demo, meta and the detection matrix under /verif/seeded/<name>/.
Never commits anything to /repo.
"""
import json, os, re, shutil, subprocess, sys, time

VERIF = os.path.dirname(os.path.abspath(__file__))
REPO = "/repo"
SCRATCH = "/tmp/seedeval-wt"


def sh(cmd, cwd=None, timeout=1800, env=None):
    r = subprocess.run(cmd, cwd=cwd, shell=True, stdout=subprocess.PIPE, stderr=subprocess.STDOUT, text=True, timeout=timeout,
                       env=dict(os.environ, CARGO_NET_OFFLINE="true", **(env or {})))
    return r.returncode, r.stdout


def main():
    # one evaluation at a time (the scratch worktrees and their build directories are shared)
    import fcntl
    lock = open("/tmp/seedeval.lock", "w")
    fcntl.flock(lock, fcntl.LOCK_EX)
    name, patch, demo, meta = sys.argv[1:5]
    checks = None
    tier = "quick"
    if "--checks" in sys.argv:
        checks = sys.argv[sys.argv.index("--checks") + 1].split(",")
    if "--tier" in sys.argv:
        tier = sys.argv[sys.argv.index("--tier") + 1]
    skip_confirm = "--skip-confirm" in sys.argv
    manifest = json.load(open(os.path.join(VERIF, "MANIFEST.json")))
    all_checks = [c["property_id"] for c in manifest["checks"]]
    checks = checks or all_checks
    out = {"name": name, "confirm": {}, "detected_by": [], "not_detected_by": [], "details": {}}
    if skip_confirm and os.path.exists(meta):
        try:
            out["confirm"] = json.load(open(meta)).get("evaluation", {}).get("confirm", {})
        except Exception:
            pass
    demo_name = "demo_" + re.sub(r"[^A-Za-z0-9_]", "_", name)
    # demonstrations of runtime-specific defects say which feature set they need (meta key "demo_cargo_args")
    dargs = ""
    try:
        dargs = json.load(open(meta)).get("demo_cargo_args", "")
    except Exception:
        pass
    if not skip_confirm:
        sh(f"git -C {REPO} worktree remove --force {SCRATCH}")
        shutil.rmtree(SCRATCH, ignore_errors=True)
        rc, o = sh(f"git -C {REPO} worktree add --detach {SCRATCH} HEAD")
        if rc != 0:
            print(o)
            sys.exit(2)
        try:
            os.makedirs(f"{SCRATCH}/tests", exist_ok=True)
            shutil.copy(demo, f"{SCRATCH}/tests/{demo_name}.rs")
            tenv = {"CARGO_TARGET_DIR": "/tmp/seedeval-target"}
            rc, o = sh(f"cargo test --offline {dargs} --test {demo_name} 2>&1 | tail -30", cwd=SCRATCH, env=tenv)
            ok_without = "test result: ok" in o and "FAILED" not in o
            out["confirm"]["demo_passes_without_patch"] = ok_without
            rc, o = sh(f"git apply {os.path.abspath(patch)}", cwd=SCRATCH)
            out["confirm"]["patch_applies"] = rc == 0
            if rc != 0:
                print("patch does not apply:", o)
            rc, o = sh("cargo test --offline --lib 2>&1 | grep -E 'test result|error' | head -5", cwd=SCRATCH, env=tenv)
            out["confirm"]["lib_tests_with_patch"] = o.strip()
            out["confirm"]["lib_tests_pass_with_patch"] = "41 passed; 0 failed" in o
            rc, o = sh(f"timeout 600 cargo test --offline {dargs} --test {demo_name} 2>&1 | tail -40", cwd=SCRATCH, env=tenv)
            fails_with = ("FAILED" in o) or ("panicked" in o) or ("timed out" in o.lower()) or rc != 0 and "test result: ok" not in o
            out["confirm"]["demo_fails_with_patch"] = bool(fails_with)
            out["confirm"]["demo_output_with_patch_tail"] = o[-1500:]
        finally:
            sh(f"git -C {REPO} worktree remove --force {SCRATCH}")
            shutil.rmtree(SCRATCH, ignore_errors=True)
    print("confirm:", {k: v for k, v in out["confirm"].items() if k != "demo_output_with_patch_tail"})
    # run the checks against a scratch copy of the repository with the patch applied (VERIF_REPO); /repo is not touched
    alt = "/tmp/seedeval-repo"
    sh(f"git -C {REPO} worktree remove --force {alt}")
    shutil.rmtree(alt, ignore_errors=True)
    rc, o = sh(f"git -C {REPO} worktree add --detach {alt} HEAD")
    rc, o = sh(f"git apply {os.path.abspath(patch)}", cwd=alt)
    if rc != 0:
        print("cannot apply the patch:", o)
        sh(f"git -C {REPO} worktree remove --force {alt}")
        sys.exit(2)
    try:
        for c in checks:
            t0 = time.time()
            rc, o = sh(f"./check {c} {tier}", cwd=VERIF, timeout=3600, env={"VERIF_REPO": alt})
            viol = [l for l in o.splitlines() if l.startswith("VIOLATION")]
            rules = sorted(set(re.findall(r"rule (\S+ \[[^\]]*\])", o)))
            verdict = "VIOLATION" if viol else ("ok" if rc == 0 else f"exit{rc}")
            out["details"][c] = {"verdict": verdict, "rules": rules[:8], "wall_s": round(time.time() - t0, 1), "tail": o[-600:] if rc not in (0, 1) else ""}
            (out["detected_by"] if viol else out["not_detected_by"]).append(c)
            print(f"  {c}: {verdict} {rules[:3]}")
    finally:
        sh(f"git -C {REPO} worktree remove --force {alt}")
        shutil.rmtree(alt, ignore_errors=True)
    dst = os.path.join(VERIF, "seeded", name)
    os.makedirs(dst, exist_ok=True)
    for src, name_ in ((patch, "patch.diff"), (demo, "demo.rs")):
        if os.path.abspath(src) != os.path.abspath(os.path.join(dst, name_)):
            shutil.copy(src, os.path.join(dst, name_))
    m = json.load(open(meta)) if os.path.exists(meta) else {}
    m.update({"evaluation": out, "evaluated_at_repo_commit": subprocess.run("git -C /repo rev-parse --short HEAD", shell=True, stdout=subprocess.PIPE, text=True).stdout.strip(),
              "what_was_run": f"seedeval.py: scratch-worktree confirmation (demo without/with patch, lib tests with patch), then VERIF_REPO=<scratch worktree with the patch> ./check <id> {tier} for {checks}"})
    json.dump(m, open(os.path.join(dst, "meta.json"), "w"), indent=1)
    print("detected by:", out["detected_by"])


if __name__ == "__main__":
    main()
