#!/bin/sh
# re-evaluates the named seeded defects (one name per line on stdin) from /verif/seeded with all checks
cd "$(dirname "$0")"
ALL="C01,C02,C03,C04,C05,C06,C07,C08,C09,C10,C11,C12,C13,C14,C15,C16,C17"
while read n; do
  [ -z "$n" ] && continue
  d=seeded/$n
  case "$n" in C18*) cs="$ALL,C18";; *) cs="$ALL";; esac
  cp $d/meta.json /tmp/meta_$n.json
  ./seedeval.py "$n" "$d/patch.diff" "$d/demo.rs" /tmp/meta_$n.json --skip-confirm --checks "$cs" > /tmp/seedeval_$n.log 2>&1
  echo "$n: $(grep 'detected by' /tmp/seedeval_$n.log)"
done
