#!/bin/sh
# Evaluates a batch of freshly delivered seeded defects: lines "name dir patch demo meta [extra checks]" on stdin.
cd "$(dirname "$0")"
ALL="C01,C02,C03,C04,C05,C06,C07,C08,C09,C10,C11,C12,C13,C14,C15,C16,C17"
while read n dir p d m extra; do
  [ -z "$n" ] && continue
  cs="$ALL"; [ -n "$extra" ] && cs="$ALL,$extra"
  # SEEDEVAL_OWN=1: only the check of the property the defect was written against (name prefix)
  [ -n "$SEEDEVAL_OWN" ] && cs=$(echo "$n" | cut -c1-3)
  ./seedeval.py "$n" "$dir/$p" "$dir/$d" "$dir/$m" --checks "$cs" > /tmp/seedeval_$n.log 2>&1
  echo "$n: $(grep -E '^confirm' /tmp/seedeval_$n.log | cut -c1-400)"
  echo "$n: $(grep 'detected by' /tmp/seedeval_$n.log)"
done
