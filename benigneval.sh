#!/bin/sh
# False-alarm test: a *benign variant* of the library (a change under which every listed property still holds) must
# leave every check silent.   ./benigneval.sh <name> <patch.diff> [meta.json]
# Applies the patch to a private scratch worktree (outside /repo and /verif), points all 18 quick checks at it
# (VERIF_REPO) and stores patch, meta and the verdicts under /verif/benign/<name>/.  /repo is never touched.
cd "$(dirname "$0")"
N=$1; P=$2; M=$3
W=${BENIGN_WT:-/tmp/benign-repo}
git -C /repo worktree remove --force $W 2>/dev/null
git -C /repo worktree add --detach $W HEAD -q || exit 2
(cd $W && git apply "$P") || { echo "$N: PATCH-DOES-NOT-APPLY"; git -C /repo worktree remove --force $W; exit 2; }
mkdir -p benign/$N
cp "$P" benign/$N/patch.diff
[ -n "$M" ] && [ -f "$M" ] && cp "$M" benign/$N/meta.json
: > benign/$N/result.txt
for c in C01 C02 C03 C04 C05 C06 C07 C08 C09 C10 C11 C12 C13 C14 C15 C16 C17 C18; do
  out=$(VERIF_REPO=$W VERIF_SEED=${VERIF_SEED:-1} ./check $c quick 2>&1); rc=$?
  if echo "$out" | grep -q "^VIOLATION"; then
    echo "$c ALARM $(echo "$out" | grep -o 'rule [A-Za-z0-9_]* \[[^]]*\] ([0-9]* occ' | head -4 | tr '\n' ' ')" >> benign/$N/result.txt
    echo "$out" | grep -E "^  rule |^VIOLATION" | cut -c1-700 > benign/$N/$c.alarm.txt
  elif [ $rc -ne 0 ]; then
    echo "$c exit$rc $(echo "$out" | grep -E 'INCONCL|error' | head -1 | cut -c1-160)" >> benign/$N/result.txt
  else
    echo "$c silent" >> benign/$N/result.txt
  fi
done
echo "$N: $(grep -c silent benign/$N/result.txt) silent; $(grep -v silent benign/$N/result.txt | tr '\n' ';')"
git -C /repo worktree remove --force $W
