#!/bin/sh
# manual evaluation of one patch against some checks in a private scratch worktree: ./mtest.sh <patch> <check>...
P=$1; shift
W=/tmp/manual-repo
git -C /repo worktree remove --force $W 2>/dev/null
git -C /repo worktree add --detach $W HEAD -q || exit 2
(cd $W && git apply "$P") || { git -C /repo worktree remove --force $W; exit 2; }
for c in "$@"; do VERIF_REPO=$W ./check $c ${TIER:-quick} | grep -E "seed=|VIOL|rule |INCONCL" | cut -c1-260; done
git -C /repo worktree remove --force $W
