"""Per-property plans: which engines, which generator profiles, how many cases per tier."""

LEVEL = {"C06": "fault_enumeration"}

COMMON_ASSUME = [
    "L1 replaces tokio's scheduler and clocks through the cfg(feature=verif) shim; hannibal's own code is unmodified",
    "only sampled programs, schedules and fault positions are covered",
]

PLANS = {
    "C01": {
        "engines": ["l1"],
        "quick": {"l1": [("mailbox", 6000)]},
        "thorough": {"l1": [("mailbox", 1500000)]},
        "rule": "programs: 1-4 clients x 2-8 ops (send/call/ping/try_force_send through Addr, OwningAddr, Sender, Caller, "
                "WeakSender, WeakCaller; conversions, forks, cancels) on one actor with mailbox in {unbounded, bounded(0..3)}, "
                "executed on the seeded vexec under 6 schedule policies; distinct = distinct hash of the full event trace incl. virtual times; "
                "non-trivial = >=2 clients submitted and both the waiting and the forcing path were used",
        "required_premises": ["C01.R1", "C01.R2", "C01.R3.cross_client.wait_force", "C01.R3.cross_client.force_wait",
                              "C01.R3.same_client.wait_force", "C01.R3.same_client.force_wait", "C01.R4.fold", "C01.R4.reply", "C01.R4.join"],
        "assumptions": COMMON_ASSUME,
    },
}
