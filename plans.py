"""Per-property plans: which engines, which generator profiles, how many cases per tier."""

LEVEL = {"C06": "fault_enumeration"}

COMMON_ASSUME = [
    "L1 replaces tokio's scheduler and clocks through the cfg(feature=verif) shim; hannibal's own code is unmodified",
    "only sampled programs, schedules and fault positions are covered",
]


GEN_RULE = ("programs drawn by the seeded generator profiles listed under coverage.profiles (1-4 clients x 2-10 ops over the full "
            "handle API: send/call/ping/try_force_send through Addr, OwningAddr, Sender, Caller, WeakSender, WeakCaller; "
            "stop/halt/consume/restart/drop/clone/downgrade/upgrade/convert/detach/await/join; forks; cancelled ops; handler scripts with "
            "yields, virtual sleeps, timers, ctx.stop/restart), each executed once on the seeded vexec under one of 6 schedule policies; "
            "distinct = distinct hash of the full event trace incl. virtual times; ")


def plan(profiles_quick, profiles_thorough, rule_nontrivial, required, extra=None, mt=None, mt_required=None):
    d = {
        "engines": ["l1"] + (["mt"] if mt else []),
        "quick": {"l1": profiles_quick, "mt": mt or []},
        "thorough": {"l1": profiles_thorough, "mt": [(n, c * 60) for n, c in (mt or [])]},
        "rule": GEN_RULE + "non-trivial = " + rule_nontrivial,
        "required_premises": required + (mt_required or []),
        "assumptions": COMMON_ASSUME + (["L2 (engine mt): the same programs on real multi-threaded tokio with hooks off; only rules that are sound under real time are evaluated there (oracle/mod.rs: mt_sound); a watchdog hit is inconclusive"] if mt else []),
    }
    if extra:
        d.update(extra)
    return d


def scale(profiles, k):
    return [(n, c * k) for n, c in profiles]


Q01 = [("mailbox", 30000), ("backpressure", 8000), ("lifecycle", 8000), ("owning", 4000), ("burst", 3000), ("mix", 10000), ("timeout", 8000), ("restart", 4000), ("stream", 4000)]
Q02 = [("stream", 6000), ("mailbox", 16000), ("lifecycle", 16000), ("owning", 10000), ("backpressure", 4000), ("timeout", 6000), ("restart", 6000), ("faults+faults", 250), ("lifecycle+faults", 250), ("mix", 10000), ("mix+faults", 150)]
Q03 = [("lifecycle", 24000), ("owning", 8000), ("handles", 6000), ("mailbox", 4000), ("stream", 8000), ("restart", 6000), ("timeout", 6000), ("mix", 10000)]
Q04 = [("stoprace", 2000), ("lifecycle", 30000), ("owning", 12000), ("mailbox", 6000), ("backpressure", 4000), ("timeout", 8000), ("restart", 4000), ("faults+faults", 250), ("lifecycle+faults", 250), ("mix", 10000), ("mix+faults", 150), ("stream", 8000)]
Q05 = [("handles", 24000), ("droprace", 2000), ("registry", 8000), ("lifecycle", 12000), ("owning", 6000), ("mailbox", 4000), ("broker", 8000), ("stream", 6000), ("timers", 6000), ("tree", 8000), ("svckeep", 6000), ("mix", 10000)]
Q12 = [("bigburst", 6), ("backpressure", 30000), ("mailbox", 10000), ("lifecycle", 4000), ("mix", 10000)]
Q17 = [("owning", 30000), ("lifecycle", 10000), ("mailbox", 4000), ("timeout", 8000), ("restart", 8000), ("mix", 10000), ("owning+faults", 400), ("joinrace", 1000)]

Q07 = [("restart", 30000), ("svcrestart", 3000), ("lifecycle", 12000), ("kinds", 4000), ("mix", 10000)]
Q10 = [("timers", 30000), ("restart", 6000), ("handles", 6000), ("kinds", 6000), ("lifecycle", 4000), ("timeout", 10000), ("backpressure", 6000), ("mix", 10000)]
Q11 = [("timeout", 40000), ("mailbox", 8000), ("lifecycle", 8000), ("backpressure", 4000), ("stream", 8000), ("timeout0", 3000), ("mix", 10000)]
Q13 = [("stream", 30000), ("lifecycle", 10000), ("owning", 6000), ("mix", 10000)]
Q14 = [("liveness", 30000), ("registry", 16000), ("lifecycle", 10000), ("handles", 6000), ("faults+faults", 200), ("mix", 10000)]
Q15 = [("kinds", 30000), ("handles", 12000), ("droprace", 2000), ("broker", 8000), ("stream", 6000), ("timeout", 8000), ("restart", 4000), ("lifecycle", 4000), ("mix", 10000)]

Q06 = [("faults+faults", 700), ("tree+faults", 500), ("svcfaults+faults", 300), ("lifecycle+faults", 300), ("timeout", 8000), ("mix+faults", 200), ("broker+faults", 150)]
Q16 = [("tree", 30000), ("tree+faults", 300), ("faults", 4000), ("mix", 10000)]

Q08 = [("registry", 40000), ("liveness", 6000), ("svcfaults", 2000), ("svckeep", 6000)]
Q09 = [("broker", 40000)]

PLANS = {
    "C01": plan(Q01, scale(Q01, 40),
                ">=2 clients submitted and both the waiting and the forcing path were used",
                ["C01.R1", "C01.R2", "C01.R3.cross_client.wait_force", "C01.R3.cross_client.force_wait",
                 "C01.R3.same_client.wait_force", "C01.R3.same_client.force_wait", "C01.R3.ping_is_a_barrier", "C01.R4.fold", "C01.R4.reply", "C01.R4.join", "C01.R5.burst_in_order", "C01.R5.burst_messages", "C01.R5.burst_count"],
                mt=[('mailbox', 400), ('backpressure', 120), ('burst', 480), ('mix', 160)], mt_required=['L2:C01.R1', 'L2:C01.R3.cross_client.wait_force', 'L2:C01.R4.reply', 'L2:C01.R5.burst_in_order', 'L2:C01.R5.burst_count']),
    "C02": plan(Q02, scale(Q02, 40),
                ">=2 clients issued calls through >=2 handle kinds",
                ["C02.R1", "C02.R2", "C02.R3", "C02.R4.resolved", "C02.R5.after_end", "C02.R5.await_after_end", "C02.R5.pending_across_end"],
                mt=[('mailbox', 320), ('owning', 160), ('mix', 160)], mt_required=['L2:C02.R1', 'L2:C02.R3']),
    "C03": plan(Q03, scale(Q03, 40),
                "an actor had >=1 restart, or terminated gracefully after a stop/drop/stream-end with >=1 message handled",
                ["C03.R1.started_first", "C03.R2.nothing_after_stopped", "C03.R3.graceful_end", "C03.R3.finished_on_stream_actor", "C03.R3.cause_leads_to_stopped",
                 "C03.R4.restart_closes_incarnation"],
                mt=[('lifecycle', 400), ('stream', 160), ('mix', 160)], mt_required=['L2:C03.R1.started_first', 'L2:C03.R2.nothing_after_stopped']),
    "C04": plan(Q04, scale(Q04, 40),
                "a submission was concurrent with, or begun after, a stop request",
                ["C04.R1.send_before_stop_handled", "C04.R1.call_before_stop_ok", "C04.R2.after_stop_unhandled", "C04.R3.stop_terminates", "C04.R3.stop_not_starved_by_stream",
                 "C04.R4.await_after_stopped", "C04.R4.join_after_stopped", "C04.R5.await_result"],
                mt=[('lifecycle', 400), ('owning', 240), ('mix', 160), ('stoprace', 960)], mt_required=['L2:C04.R2.after_stop_unhandled', 'L2:C04.R4.await_after_stopped']),
    "C05": plan(Q05, scale(Q05, 40),
                "the last strong handle of an actor was dropped while it was running, or a weak handle was upgraded after that",
                ["C05.R1.no_termination_while_held", "C05.R1.child_list_keeps_alive", "C05.R1.registry_keeps_alive", "C05.R2.last_drop_terminates", "C05.R2.with_live_timers", "C05.R2.accepted_then_handled",
                 "C05.R2.exact_time", "C05.R2.quiescent_invariant", "C05.R3.upgrade_after_last_drop", "C05.R3.monotone"],
                mt=[('handles', 480), ('mix', 160), ('droprace', 640)], mt_required=['L2:C05.R3.upgrade_after_last_drop', 'L2:C05.R1.no_termination_while_held']),
    "C12": plan(Q12, scale(Q12, 40),
                "a send on a bounded mailbox returned Pending at least once (backpressure was exerted)",
                ["C12.R1.send_returned", "C12.R2.send_resolves", "C12.R3.unbounded_never_waits", "C12.R4.stop_while_full"],
                mt=[('backpressure', 640), ('mix', 160)], mt_required=['L2:C12.R1.send_returned', 'L2:C12.R3.unbounded_never_waits']),
    "C17": plan(Q17, scale(Q17, 40),
                "a join/consume yielded the actor, or an OwningAddr was detached",
                ["C17.R1.join_after_stopped", "C17.R1.first_join_result", "C17.R2.final_state", "C17.R3.at_most_once", "C17.R3.unpolled_join_takes_nothing", "C17.R4.join_resolves", "C17.R1.none_on_failed",
                 "C17.R6.detach_keeps_running"],
                mt=[('owning', 480), ('mix', 160), ('joinrace', 480)], mt_required=['L2:C17.R2.final_state', 'L2:C17.R3.at_most_once', 'L2:C17.R1.first_join_result']),
    "C07": plan(Q07, scale(Q07, 40),
                "at least one restart request (Addr::restart or Context::restart) was accepted",
                ["C07.R1.handles_survive", "C07.R2.incarnation_of_message", "C07.R3.restart_count", "C07.R3.strategy_model",
                 "C07.R3.state_carried_or_reset", "C07.R3.non_restartable_ignores", "C07.R3.non_restartable_timers_unaffected", "C07.R4.started_error_fails", "C07.R5.old_timers_silent"],
                mt=[('restart', 480), ('mix', 160)], mt_required=['L2:C07.R2.incarnation_of_message', 'L2:C07.R3.strategy_model']),
    "C10": plan(Q10, scale(Q10, 40),
                "a periodic timer delivered at least twice, or an actor terminated while its timers were pending",
                ["C10.R1.not_before_period", "C10.R1.interval_with_spacing", "C10.R2.interval_count_on_busy_actor", "C10.R2.exact_schedule", "C10.R3.delayed_at_most_once", "C10.R4.nothing_after_end",
                 "C10.R5.timers_do_not_prolong", "C10.R6.timer_tasks_end"],
                mt=[('timers', 480), ('mix', 160)], mt_required=['L2:C10.R1.not_before_period', 'L2:C10.R3.delayed_at_most_once']),
    "C11": plan(Q11, scale(Q11, 40),
                "an invocation needed more virtual time than the configured timeout",
                ["C11.R1.below_limit_completes", "C11.R2.above_limit_abandoned", "C11.R2.caller_gets_error", "C11.R3.continues_after_timeout",
                 "C11.R3.successor_handled", "C11.R3.state_intact", "C11.R3.timers_intact_after_timeout", "C11.R4.fail_on_timeout_terminates", "C11.R5.no_timeout_no_abandon"]),
    "C13": plan(Q13, scale(Q13, 40),
                "a stream-attached actor handled both stream items and messages, or was stopped/dropped while its stream was endless",
                ["C13.R1.items_exactly_once_in_order", "C13.R1.items", "C13.R2.messages_in_order", "C13.R3.never_abandoned", "C13.R4.terminates",
                 "C13.R4.terminates_despite_endless_stream", "C13.R4.await_ok", "C13.R5.bounded_progress_after_stop"],
                mt=[('stream', 480), ('mix', 160)], mt_required=['L2:C13.R1.items_exactly_once_in_order']),
    "C14": plan(Q14, scale(Q14, 40),
                "stopped()/running() was queried after the actor task had ended, or a registry operation followed an un-awaited termination",
                ["C14.R1.running_before_termination", "C14.R2.stopped_after_termination", "C14.R3.from_registry_returns_live_instance",
                 "C14.R3.respawn_after_unawaited_termination", "C14.R3.try_from_registry_never_dead", "C14.R3.register_after_unawaited_termination"]),
    "C15": plan(Q15, scale(Q15, 40),
                "a context operation, weak upgrade or timer was observed while neither an Addr nor an OwningAddr was alive",
                ["C15.R1.ctx_stop_ok", "C15.R2.ctx_restart_ok", "C15.R3.timers_keep_firing", "C15.R4.upgrade_while_strong",
                 "C15.R5.same_actor_through_conversions", "C15.R5.same_subscriber_through_conversions", "C15.R6.runs_while_any_strong_handle_is_held"],
                mt=[('kinds', 480), ('mix', 160), ('droprace', 640)], mt_required=['L2:C15.R1.ctx_stop_ok', 'L2:C15.R4.upgrade_while_strong', 'L2:C15.R5.same_actor_through_conversions', 'L2:C15.R6.runs_while_any_strong_handle_is_held']),
    "C06": plan(Q06, scale(Q06, 40),
                "a fault was injected and hit (every run except the fault-free base run of each program)",
                ["C06.R1.ops_resolved", "C06.R1.later_ops_err", "C06.R1.pending_ops_err", "C06.R2.await_err", "C06.R2.join_none",
                 "C06.R2.no_activity_after_fault", "C06.R3.timers_silent_after_end", "C06.R3.timer_tasks_end", "C06.R4.children_released",
                 "C06.R5.registry_respawns", "C06.R5.try_from_registry_never_dead", "C06.R5.register_succeeds",
                 "C06.R6.bystander_unaffected", "C06.R6.healthy_subscribers_still_served", "C06.R6.bystander_calls_ok", "C06.R6.caller_of_failed_sees_error_only"],
                {"rule": "fault enumeration: for every base program of the families (victim with timers + child + bystander + pending client ops; actor trees; "
                         "service victims; random lifecycle programs) and its schedule seed, the fault-free run is executed first, then ONE RUN PER SINGLE FAULT: "
                         "a panic at every callback entry the fault-free run made on every victim (started / each handler / stopped / finished), an Err at every "
                         "started entry, and a cancellation after every poll of the victim's loop task (thorough adds sampled ordered pairs on different actors); "
                         "coverage.counters.fault_table.* = runs per kind@position class, fault_table_hit.* = runs in which the fault actually fired; "
                         "distinct = distinct trace hash; non-trivial = a fault fired"}),
    "C16": plan(Q16, scale(Q16, 40),
                "a parent with at least one registered child terminated, or a broadcast was sent to registered children",
                ["C16.R1.child_outlives_until_parent_ends", "C16.R2.released_child_stops_gracefully", "C16.R2.accepted_messages_handled",
                 "C16.R2.child_held_outside_keeps_running", "C16.R3.broadcast_exactly_once", "C16.R3.only_registered_children",
                 "C16.R3.not_to_other_types", "C16.R3.unit_broadcast_count"],
                mt=[('tree', 480), ('mix', 160)], mt_required=['L2:C16.R3.broadcast_exactly_once']),
    "C08": plan(Q08, scale(Q08, 40),
                "a history in which at least two registry operations of one service type overlapped in time",
                ["C08.R1.history_linearizable", "C08.R2.no_registry_op_pending_at_quiescence", "C08.R1.concurrent_history", "C08.R_once.default_spawns", "C08.ops.lookup", "C08.ops.register_ok",
                 "C08.ops.register_refused", "C08.ops.replace", "C08.ops.unregister", "C08.ops.try_lookup_some", "C08.ops.try_lookup_none",
                 "C08.ops.previous_entry_identified", "C08.ops.already_running_none", "C08.ops.already_running_true", "C08.ops.already_running_false", "C08.ops.termination"],
                {"rule": "histories of from_registry / setup / register / replace / unregister / try_from_registry / already_running / stop / self-termination "
                         "issued by 1-4 client tasks on 1-2 service types (<= 14 registry ops), executed on the seeded vexec; each per-type history (operations "
                         "with begin/return stamps and observed results, instance identities learnt from replies, instance terminations as instantaneous events) "
                         "is checked for linearizability against a sequential registry model by a memoised Wing-Gong search (2 s cap = inconclusive, counted); "
                         "distinct = distinct trace hash; non-trivial = two registry operations of one type overlapped"},
                mt=[('registry', 960), ('mix', 160)], mt_required=['L2:C08.R1.history_linearizable', 'L2:C08.R1.concurrent_history']),

    "C09": plan(Q09, scale(Q09, 40),
                ">=2 publishers with overlapping publications on a topic, or a subscription change / subscriber termination racing a publish",
                ["C09.R1.subscribed_exactly_once", "C09.R1.resubscribed_still_once", "C09.R2.not_subscribed_zero", "C09.R3.at_most_once",
                 "C09.R4.common_order", "C09.R4.publisher_order_edges", "C09.R5.subscriber_dies_while_subscribed", "C09.R6.publish_returns_ok",
                 "C09.R6.reaches_live_despite_dead"],
                mt=[('broker', 640), ('mix', 160)], mt_required=['L2:C09.R2.not_subscribed_zero', 'L2:C09.R3.at_most_once', 'L2:C09.R4.common_order']),
    "C18": {
        "engines": ["xrt"],
        "quick": {"xrt": 1},
        "thorough": {"xrt": 20},
        "exhaustive": True,
        "rule": "finite catalogue enumerated completely on every run: every spawn entry point (spawn, spawn_owning, spawn_default, "
                "DefaultSpawnable::spawn_owning, spawn_on_stream, spawn_owning_on_stream, builder bounded/unbounded x {restart-only, recreate, "
                "non_restartable} x {spawn, spawn_owning}, builder on_stream / bounded_on_stream / with_stream x {spawn, spawn_owning}, from_registry, "
                "setup, register, replace) x 8-14 timing-independent single-client programs (every step awaits a definite response or polls the harness "
                "event log), each run on the tokio, async-std and smol builds of hannibal (hooks off); the normalised outcome record (operation results, "
                "callback string, join value) must be identical on the three runtimes and across repeats, and the first ping after a spawn call returned "
                "must be Ok; distinct_nontrivial = number of cells whose three records agree (each cell is a distinct entry x program)",
        "required_premises": ["C18.R_same.cells_compared", "C18.R_alive.ping_after_spawn"],
        "assumptions": ["programs are single-client by construction (they must not depend on timing)", "a 20 s watchdog per cell yields inconclusive, never a violation"],
        "deadline": {"quick": 1200, "thorough": 3600},
    },
}

# C08 thorough additionally runs the registry family on a release build of the L1 harness (no debug_assert ping)
PLANS["C08"]["engines"] = ["l1", "mt", "l1r"]
PLANS["C08"]["quick"]["l1r"] = [("registry", 16000)]
PLANS["C08"]["thorough"]["l1r"] = [("registry", 600000), ("svckeep", 60000)]
